#!/usr/bin/env bash
# MANIFEST.setup_cmd: build everything offline from files on disk
set -eu
cd "$(dirname "${BASH_SOURCE[0]}")"
export GOFLAGS=-mod=mod GOPROXY=off GOSUMDB=off GOTOOLCHAIN=local
./check build
echo setup ok
