package lib

import (
	"fmt"
	"reflect"

	"cvssmc/internal/spec"

	v2 "github.com/goark/go-cvss/v2/metric"
	v3 "github.com/goark/go-cvss/v3/metric"
)

// Enum binds one specification metric to the library: Consts[i] is the library's exported
// constant for spec code Codes[i] (hand-written from the constants' *names*, not from the
// library's code maps), Unknown the constant meaning unknown/invalid, Get the library's parser.
type Enum struct {
	*spec.Metric
	Consts  []int
	Unknown int
	MaxEnum int           // largest declared constant
	Get     reflect.Value // func(string) T
	Typ     reflect.Type
}

func e(m *spec.Metric, get any, unknown any, consts ...any) *Enum {
	if m == nil {
		panic("enum: no metric")
	}
	if len(consts) != len(m.Codes) {
		panic("enum: const count for " + m.Name)
	}
	en := &Enum{Metric: m, Get: reflect.ValueOf(get), Typ: reflect.TypeOf(unknown), Unknown: int(reflect.ValueOf(unknown).Int())}
	en.MaxEnum = en.Unknown
	for _, c := range consts {
		v := reflect.ValueOf(c)
		if v.Type() != en.Typ {
			panic("enum: mixed types for " + m.Name)
		}
		en.Consts = append(en.Consts, int(v.Int()))
		if int(v.Int()) > en.MaxEnum {
			en.MaxEnum = int(v.Int())
		}
	}
	return en
}

func m3(n string) *spec.Metric { return spec.Find(3, n) }
func m2(n string) *spec.Metric { return spec.Find(2, n) }

// Enums3 / Enums2 in canonical vector order.
var Enums3 = []*Enum{
	e(m3("AV"), v3.GetAttackVector, v3.AttackVectorUnknown, v3.AttackVectorNetwork, v3.AttackVectorAdjacent, v3.AttackVectorLocal, v3.AttackVectorPhysical),
	e(m3("AC"), v3.GetAttackComplexity, v3.AttackComplexityUnknown, v3.AttackComplexityLow, v3.AttackComplexityHigh),
	e(m3("PR"), v3.GetPrivilegesRequired, v3.PrivilegesRequiredUnknown, v3.PrivilegesRequiredNone, v3.PrivilegesRequiredLow, v3.PrivilegesRequiredHigh),
	e(m3("UI"), v3.GetUserInteraction, v3.UserInteractionUnknown, v3.UserInteractionNone, v3.UserInteractionRequired),
	e(m3("S"), v3.GetScope, v3.ScopeUnknown, v3.ScopeUnchanged, v3.ScopeChanged),
	e(m3("C"), v3.GetConfidentialityImpact, v3.ConfidentialityImpactUnknown, v3.ConfidentialityImpactHigh, v3.ConfidentialityImpactLow, v3.ConfidentialityImpactNone),
	e(m3("I"), v3.GetIntegrityImpact, v3.IntegrityImpactUnknown, v3.IntegrityImpactHigh, v3.IntegrityImpactLow, v3.IntegrityImpactNone),
	e(m3("A"), v3.GetAvailabilityImpact, v3.AvailabilityImpactUnknown, v3.AvailabilityImpactHigh, v3.AvailabilityImpactLow, v3.AvailabilityImpactNone),
	e(m3("E"), v3.GetExploitability, v3.ExploitabilityInvalid, v3.ExploitabilityNotDefined, v3.ExploitabilityHigh, v3.ExploitabilityFunctional, v3.ExploitabilityProofOfConcept, v3.ExploitabilityUnproven),
	e(m3("RL"), v3.GetRemediationLevel, v3.RemediationLevelInvalid, v3.RemediationLevelNotDefined, v3.RemediationLevelUnavailable, v3.RemediationLevelWorkaround, v3.RemediationLevelTemporaryFix, v3.RemediationLevelOfficialFix),
	e(m3("RC"), v3.GetReportConfidence, v3.ReportConfidenceInvalid, v3.ReportConfidenceNotDefined, v3.ReportConfidenceConfirmed, v3.ReportConfidenceReasonable, v3.ReportConfidenceUnknown),
	e(m3("CR"), v3.GetConfidentialityRequirement, v3.ConfidentialityRequirementInvalid, v3.ConfidentialityRequirementNotDefined, v3.ConfidentialityRequirementHigh, v3.ConfidentialityRequirementMedium, v3.ConfidentialityRequirementLow),
	e(m3("IR"), v3.GetIntegrityRequirement, v3.IntegrityRequirementInvalid, v3.IntegrityRequirementNotDefined, v3.IntegrityRequirementHigh, v3.IntegrityRequirementMedium, v3.IntegrityRequirementLow),
	e(m3("AR"), v3.GetAvailabilityRequirement, v3.AvailabilityRequirementInvalid, v3.AvailabilityRequirementNotDefined, v3.AvailabilityRequirementHigh, v3.AvailabilityRequirementMedium, v3.AvailabilityRequirementLow),
	e(m3("MAV"), v3.GetModifiedAttackVector, v3.ModifiedAttackVectorInvalid, v3.ModifiedAttackVectorNotDefined, v3.ModifiedAttackVectorNetwork, v3.ModifiedAttackVectorAdjacent, v3.ModifiedAttackVectorLocal, v3.ModifiedAttackVectorPhysical),
	e(m3("MAC"), v3.GetModifiedAttackComplexity, v3.ModifiedAttackComplexityInvalid, v3.ModifiedAttackComplexityNotDefined, v3.ModifiedAttackComplexityLow, v3.ModifiedAttackComplexityHigh),
	e(m3("MPR"), v3.GetModifiedPrivilegesRequired, v3.ModifiedPrivilegesRequiredInvalid, v3.ModifiedPrivilegesRequiredNotDefined, v3.ModifiedPrivilegesRequiredNone, v3.ModifiedPrivilegesRequiredLow, v3.ModifiedPrivilegesRequiredHigh),
	e(m3("MUI"), v3.GetModifiedUserInteraction, v3.ModifiedUserInteractionInvalid, v3.ModifiedUserInteractionNotDefined, v3.ModifiedUserInteractionNone, v3.ModifiedUserInteractionRequired),
	e(m3("MS"), v3.GetModifiedScope, v3.ModifiedScopeInvalid, v3.ModifiedScopeNotDefined, v3.ModifiedScopeUnchanged, v3.ModifiedScopeChanged),
	e(m3("MC"), v3.GetModifiedConfidentialityImpact, v3.ModifiedConfidentialityImpactInvalid, v3.ModifiedConfidentialityImpactNotDefined, v3.ModifiedConfidentialityImpactHigh, v3.ModifiedConfidentialityImpactLow, v3.ModifiedConfidentialityImpactNone),
	e(m3("MI"), v3.GetModifiedIntegrityImpact, v3.ModifiedIntegrityImpactInvalid, v3.ModifiedIntegrityImpactNotDefined, v3.ModifiedIntegrityImpactHigh, v3.ModifiedIntegrityImpactLow, v3.ModifiedIntegrityImpactNone),
	e(m3("MA"), v3.GetModifiedAvailabilityImpact, v3.ModifiedAvailabilityInvalid, v3.ModifiedAvailabilityImpactNotDefined, v3.ModifiedAvailabilityImpactHigh, v3.ModifiedAvailabilityImpactLow, v3.ModifiedAvailabilityImpactNone),
}

var Enums2 = []*Enum{
	e(m2("AV"), v2.GetAccessVector, v2.AccessVectorUnknown, v2.AccessVectorLocal, v2.AccessVectorAdjacent, v2.AccessVectorNetwork),
	e(m2("AC"), v2.GetAccessComplexity, v2.AccessComplexityUnknown, v2.AccessComplexityHigh, v2.AccessComplexityMedium, v2.AccessComplexityLow),
	e(m2("Au"), v2.GetAuthentication, v2.AuthenticationUnknown, v2.AuthenticationMultiple, v2.AuthenticationSingle, v2.AuthenticationNone),
	e(m2("C"), v2.GetConfidentialityImpact, v2.ConfidentialityImpactUnknown, v2.ConfidentialityImpactNone, v2.ConfidentialityImpactPartial, v2.ConfidentialityImpactComplete),
	e(m2("I"), v2.GetIntegrityImpact, v2.IntegrityImpactUnknown, v2.IntegrityImpactNone, v2.IntegrityImpactPartial, v2.IntegrityImpactComplete),
	e(m2("A"), v2.GetAvailabilityImpact, v2.AvailabilityImpactUnknown, v2.AvailabilityImpactNone, v2.AvailabilityImpactPartial, v2.AvailabilityImpactComplete),
	e(m2("E"), v2.GetExploitability, v2.ExploitabilityInvalid, v2.ExploitabilityUnproven, v2.ExploitabilityProofOfConcept, v2.ExploitabilityFunctional, v2.ExploitabilityHigh, v2.ExploitabilityNotDefined),
	e(m2("RL"), v2.GetRemediationLevel, v2.RemediationLevelInvalid, v2.RemediationLevelOfficialFix, v2.RemediationLevelTemporaryFix, v2.RemediationLevelWorkaround, v2.RemediationLevelUnavailable, v2.RemediationLevelNotDefined),
	e(m2("RC"), v2.GetReportConfidence, v2.ReportConfidenceInvalid, v2.ReportConfidenceUnconfirmed, v2.ReportConfidenceUncorroborated, v2.ReportConfidenceConfirmed, v2.ReportConfidenceNotDefined),
	e(m2("CDP"), v2.GetCollateralDamagePotential, v2.CollateralDamagePotentialInvalid, v2.CollateralDamagePotentialNon, v2.CollateralDamagePotentialLow, v2.CollateralDamagePotentialLowMedium, v2.CollateralDamagePotentialMediumHigh, v2.CollateralDamagePotentialHigh, v2.CollateralDamagePotentialNotDefined),
	e(m2("TD"), v2.GetTargetDistribution, v2.TargetDistributionInvalid, v2.TargetDistributionNon, v2.TargetDistributionLow, v2.TargetDistributionMedium, v2.TargetDistributionHigh, v2.TargetDistributionNotDefined),
	e(m2("CR"), v2.GetConfidentialityRequirement, v2.ConfidentialityRequirementInvalid, v2.ConfidentialityRequirementLow, v2.ConfidentialityRequirementMedium, v2.ConfidentialityRequirementHigh, v2.ConfidentialityRequirementNotDefined),
	e(m2("IR"), v2.GetIntegrityRequirement, v2.IntegrityRequirementInvalid, v2.IntegrityRequirementLow, v2.IntegrityRequirementMedium, v2.IntegrityRequirementHigh, v2.IntegrityRequirementNotDefined),
	e(m2("AR"), v2.GetAvailabilityRequirement, v2.AvailabilityRequirementInvalid, v2.AvailabilityRequirementLow, v2.AvailabilityRequirementMedium, v2.AvailabilityRequirementHigh, v2.AvailabilityRequirementNotDefined),
}

// Enums returns the list for a version.
func Enums(ver int) []*Enum {
	if ver == 2 {
		return Enums2
	}
	return Enums3
}

// EnumOf finds the enum by version and vector name.
func EnumOf(ver int, name string) *Enum {
	for _, en := range Enums(ver) {
		if en.Name == name {
			return en
		}
	}
	return nil
}

// ConstOf returns the library constant for a spec code (ok=false if code is not a spec code).
func (en *Enum) ConstOf(code string) (int, bool) {
	for i, c := range en.Codes {
		if c.Code == code {
			return en.Consts[i], true
		}
	}
	return 0, false
}

// Parse calls the library's Get<Metric>(s).
func (en *Enum) Parse(s string) int {
	out := en.Get.Call([]reflect.Value{reflect.ValueOf(s)})
	return int(out[0].Int())
}

// Val builds a value of the metric's Go type.
func (en *Enum) Val(i int) reflect.Value {
	v := reflect.New(en.Typ).Elem()
	v.SetInt(int64(i))
	return v
}

// Str calls the value's String method.
func (en *Enum) Str(i int) string {
	return en.Val(i).MethodByName("String").Call(nil)[0].String()
}

// Predicates returns the results of whichever of IsUnknown / IsValid / IsDefined the type has.
func (en *Enum) Predicates(i int) map[string]bool {
	r := map[string]bool{}
	v := en.Val(i)
	for _, n := range []string{"IsUnknown", "IsValid", "IsDefined"} {
		if m := v.MethodByName(n); m.IsValid() {
			r[n] = m.Call(nil)[0].Bool()
		}
	}
	return r
}

// Weight calls Value(args...) on the value; args are reflect.Values already typed.
func (en *Enum) Weight(i int, args ...reflect.Value) (float64, error) {
	m := en.Val(i).MethodByName("Value")
	if !m.IsValid() {
		return 0, fmt.Errorf("no Value method")
	}
	if m.Type().NumIn() != len(args) {
		return 0, fmt.Errorf("Value takes %d arguments, harness passes %d", m.Type().NumIn(), len(args))
	}
	return m.Call(args)[0].Float(), nil
}
