// Package lib is the only place where the harness touches the library's metric packages.
// It offers (a) a uniform view of the six metrics types (constructor, nil receiver, Decode,
// observers, accessors), (b) the hand-written correspondence between specification codes
// (package spec) and the library's exported enum constants, and (c) reflective access to
// exported fields by vector name.
package lib

import (
	"errors"
	"fmt"
	"reflect"
	"sync"

	"github.com/goark/go-cvss/cvsserr"
	v2 "github.com/goark/go-cvss/v2/metric"
	v3 "github.com/goark/go-cvss/v3/metric"
)

// ---------------------------------------------------------------------------------------------
// sentinels

type Sentinel struct {
	Name string
	Err  error
}

var Sentinels = []Sentinel{
	{"NullPointer", cvsserr.ErrNullPointer}, {"InvalidVector", cvsserr.ErrInvalidVector}, {"NotSupportVer", cvsserr.ErrNotSupportVer},
	{"NotSupportMetric", cvsserr.ErrNotSupportMetric}, {"InvalidTemplate", cvsserr.ErrInvalidTemplate}, {"SameMetric", cvsserr.ErrSameMetric},
	{"InvalidValue", cvsserr.ErrInvalidValue}, {"NoBase", cvsserr.ErrNoBaseMetrics}, {"NoTemporal", cvsserr.ErrNoTemporalMetrics},
	{"NoEnv", cvsserr.ErrNoEnvironmentalMetrics}, {"Misordered", cvsserr.ErrMisordered},
}

// Classes returns the names of all sentinels err matches under errors.Is ("nil" for no error).
func Classes(err error) []string {
	if err == nil {
		return []string{"nil"}
	}
	r := []string{}
	for _, s := range Sentinels {
		if errors.Is(err, s.Err) {
			r = append(r, s.Name)
		}
	}
	return r
}

// Class returns a single string for Classes.
func Class(err error) string {
	c := Classes(err)
	if len(c) == 1 {
		return c[0]
	}
	return fmt.Sprint(c)
}

// ---------------------------------------------------------------------------------------------
// the six metrics types

// New returns a constructor result.
func New(ver, level int) any {
	switch {
	case ver == 3 && level == 0:
		return v3.NewBase()
	case ver == 3 && level == 1:
		return v3.NewTemporal()
	case ver == 3 && level == 2:
		return v3.NewEnvironmental()
	case ver == 2 && level == 0:
		return v2.NewBase()
	case ver == 2 && level == 1:
		return v2.NewTemporal()
	case ver == 2 && level == 2:
		return v2.NewEnvironmental()
	}
	panic("lib.New")
}

// Nil returns a typed nil receiver.
func Nil(ver, level int) any {
	switch {
	case ver == 3 && level == 0:
		return (*v3.Base)(nil)
	case ver == 3 && level == 1:
		return (*v3.Temporal)(nil)
	case ver == 3 && level == 2:
		return (*v3.Environmental)(nil)
	case ver == 2 && level == 0:
		return (*v2.Base)(nil)
	case ver == 2 && level == 1:
		return (*v2.Temporal)(nil)
	case ver == 2 && level == 2:
		return (*v2.Environmental)(nil)
	}
	panic("lib.Nil")
}

// IsNil reports whether o is a nil pointer of one of the six types (or a nil interface).
func IsNil(o any) bool {
	if o == nil {
		return true
	}
	v := reflect.ValueOf(o)
	return v.Kind() == reflect.Ptr && v.IsNil()
}

// Decode calls recv.Decode(s).  The returned object is a nil interface when the library
// returned a nil pointer.  A panic is converted into pan != "".
func Decode(recv any, s string) (obj any, err error, pan string) {
	defer func() {
		if r := recover(); r != nil {
			pan = fmt.Sprint(r)
		}
	}()
	switch x := recv.(type) {
	case *v3.Base:
		o, e := x.Decode(s)
		if o != nil {
			obj = o
		}
		err = e
	case *v3.Temporal:
		o, e := x.Decode(s)
		if o != nil {
			obj = o
		}
		err = e
	case *v3.Environmental:
		o, e := x.Decode(s)
		if o != nil {
			obj = o
		}
		err = e
	case *v2.Base:
		o, e := x.Decode(s)
		if o != nil {
			obj = o
		}
		err = e
	case *v2.Temporal:
		o, e := x.Decode(s)
		if o != nil {
			obj = o
		}
		err = e
	case *v2.Environmental:
		o, e := x.Decode(s)
		if o != nil {
			obj = o
		}
		err = e
	default:
		panic("lib.Decode: unknown receiver")
	}
	return
}

// DecodeNew decodes s with a fresh constructor result of the given decoder.
func DecodeNew(ver, level int, s string) (any, error, string) {
	return Decode(New(ver, level), s)
}

// VerLevel identifies the type of o.
func VerLevel(o any) (ver, level int) {
	switch o.(type) {
	case *v3.Base:
		return 3, 0
	case *v3.Temporal:
		return 3, 1
	case *v3.Environmental:
		return 3, 2
	case *v2.Base:
		return 2, 0
	case *v2.Temporal:
		return 2, 1
	case *v2.Environmental:
		return 2, 2
	}
	panic(fmt.Sprintf("lib.VerLevel: %T", o))
}

type observer interface {
	Score() float64
	GetError() error
	Encode() (string, error)
	String() string
}

// Obs is everything the observer methods report about one object.
type Obs struct {
	Score   float64
	Sev     string // Severity().String()
	SevN    int
	GetErr  string // error class of GetError()
	Enc     string
	EncErr  string
	Str     string
	Panic   string
	ErrText string // GetError().Error() with its context
}

func (o Obs) String() string {
	return fmt.Sprintf("score=%v sev=%s(%d) geterr=%s enc=%q encerr=%s str=%q panic=%q", o.Score, o.Sev, o.SevN, o.GetErr, o.Enc, o.EncErr, o.Str, o.Panic)
}

// Observe calls Score, Severity, GetError, Encode and String on o (which may be a typed nil).
func Observe(o any) (r Obs) {
	defer func() {
		if x := recover(); x != nil {
			r.Panic = fmt.Sprint(x)
		}
	}()
	ob := o.(observer)
	r.Score = ob.Score() + 0
	r.Sev, r.SevN = Severity(o)
	ge := ob.GetError()
	r.GetErr = Class(ge)
	if ge != nil {
		r.ErrText = ge.Error()
	}
	s, err := ob.Encode()
	r.Enc, r.EncErr = s, Class(err)
	r.Str = ob.String()
	return
}

// Severity returns the severity name and number.
func Severity(o any) (string, int) {
	switch x := o.(type) {
	case *v3.Base:
		s := x.Severity()
		return s.String(), int(s)
	case *v3.Temporal:
		s := x.Severity()
		return s.String(), int(s)
	case *v3.Environmental:
		s := x.Severity()
		return s.String(), int(s)
	case *v2.Base:
		s := x.Severity()
		return s.String(), int(s)
	case *v2.Temporal:
		s := x.Severity()
		return s.String(), int(s)
	case *v2.Environmental:
		s := x.Severity()
		return s.String(), int(s)
	}
	panic("lib.Severity")
}

// Score returns o.Score().
// Score returns the score with the sign of a zero dropped (-0 == 0: the v2 base equation yields
// -0 for a vector without impact; a result that differs only in that sign is the same result).
func Score(o any) float64 { return o.(observer).Score() + 0 }

// Sub returns the embedded view of o at a lower level through the accessor methods
// (BaseMetrics / TemporalMetrics); level == own level returns o itself.  The result is a typed
// pointer (possibly nil).
func Sub(o any, level int) any {
	switch x := o.(type) {
	case *v3.Base:
		if level == 0 {
			return x.BaseMetrics()
		}
	case *v3.Temporal:
		switch level {
		case 0:
			return x.BaseMetrics()
		case 1:
			return x
		}
	case *v3.Environmental:
		switch level {
		case 0:
			return x.BaseMetrics()
		case 1:
			return x.TemporalMetrics()
		case 2:
			return x
		}
	case *v2.Base:
		if level == 0 {
			return x
		}
	case *v2.Temporal:
		switch level {
		case 0:
			return x.BaseMetrics()
		case 1:
			return x
		}
	case *v2.Environmental:
		switch level {
		case 0:
			return x.BaseMetrics()
		case 1:
			return x.TemporalMetrics()
		case 2:
			return x
		}
	}
	panic(fmt.Sprintf("lib.Sub(%T,%d)", o, level))
}

// SubField returns the embedded object through the struct field (x.Base / x.Temporal).
func SubField(o any, level int) any {
	switch x := o.(type) {
	case *v3.Temporal:
		if level == 0 {
			return x.Base
		}
	case *v3.Environmental:
		switch level {
		case 0:
			return x.Base
		case 1:
			return x.Temporal
		}
	case *v2.Temporal:
		if level == 0 {
			return x.Base
		}
	case *v2.Environmental:
		switch level {
		case 0:
			return x.Base
		case 1:
			return x.Temporal
		}
	}
	return Sub(o, level)
}

// IsEmpty calls the v2 IsEmpty of the group at the given level (1 temporal, 2 environmental).
func IsEmpty(o any, level int) bool {
	switch x := o.(type) {
	case *v2.Temporal:
		if level == 1 {
			return x.IsEmpty()
		}
	case *v2.Environmental:
		if level == 1 {
			return x.Temporal.IsEmpty()
		}
		if level == 2 {
			return x.IsEmpty()
		}
	}
	panic(fmt.Sprintf("lib.IsEmpty(%T,%d)", o, level))
}

// ---------------------------------------------------------------------------------------------
// reflective field access by vector name

// fieldName maps a vector metric name to the struct field name (identical in this library).
func fieldName(name string) string { return name }

// Field returns the integer value of the exported field named like the metric.  ok is false when
// the field cannot be reached (nil embedded pointer, nil receiver, no such field).
func Field(o any, name string) (val int, ok bool) {
	defer func() {
		if recover() != nil {
			ok = false
		}
	}()
	v := reflect.ValueOf(o)
	if v.Kind() != reflect.Ptr || v.IsNil() {
		return 0, false
	}
	idx, found := fieldIndex(v.Elem().Type(), fieldName(name))
	if !found {
		return 0, false
	}
	f := v.Elem().FieldByIndex(idx) // panics on a nil embedded pointer: recovered above
	return int(f.Int()), true
}

var fieldIdx sync.Map // reflect.Type -> map[string][]int

func fieldIndex(t reflect.Type, name string) ([]int, bool) {
	type key struct {
		t reflect.Type
		n string
	}
	if v, ok := fieldIdx.Load(key{t, name}); ok {
		if v == nil {
			return nil, false
		}
		return v.([]int), true
	}
	sf, ok := t.FieldByName(name)
	if !ok || sf.Type.Kind() != reflect.Int {
		fieldIdx.Store(key{t, name}, nil)
		return nil, false
	}
	fieldIdx.Store(key{t, name}, sf.Index)
	return sf.Index, true
}

// SetField assigns the exported field named like the metric.
func SetField(o any, name string, val int) {
	f := reflect.ValueOf(o).Elem().FieldByName(fieldName(name))
	if !f.IsValid() || !f.CanSet() {
		panic("lib.SetField: " + name)
	}
	f.SetInt(int64(val))
}

// V3Ver returns the Ver field of a v3 object as its label ("3.0", "3.1", "unknown").
func V3Ver(o any) string {
	switch x := o.(type) {
	case *v3.Base:
		return x.Ver.String()
	case *v3.Temporal:
		return x.Ver.String()
	case *v3.Environmental:
		return x.Ver.String()
	}
	panic("lib.V3Ver")
}

// SetV3Ver assigns the Ver field of a v3 object.
func SetV3Ver(o any, v int) {
	switch x := o.(type) {
	case *v3.Base:
		x.Ver = v3.Version(v)
	case *v3.Temporal:
		x.Ver = v3.Version(v)
	case *v3.Environmental:
		x.Ver = v3.Version(v)
	default:
		panic("lib.SetV3Ver")
	}
}
