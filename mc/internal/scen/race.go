package scen

import "cvssmc/internal/ev"

// RaceResult is what the free-running -race pass reports.
type RaceResult struct {
	Scenarios        int      `json:"scenarios"`
	Goroutines       int      `json:"goroutines"`
	Iterations       int      `json:"iterations_per_goroutine"`
	Operations       int64    `json:"operations"`
	Races            int      `json:"race_reports"`
	Mismatches       []string `json:"result_mismatches"`
	Crash            string   `json:"crash,omitempty"`
	FirstReport      string   `json:"first_report,omitempty"`
	RaceEnabled      bool     `json:"race_detector_enabled"`
	StressOperations int64    `json:"stress_stage_operations,omitempty"`
}

// ApplyRace merges a race-pass result into a C16 run.
func ApplyRace(r *ev.Run, res RaceResult) {
	r.Set("race_pass", map[string]any{"scenarios": res.Scenarios, "goroutines": res.Goroutines, "iterations_per_goroutine": res.Iterations, "operations": res.Operations, "race_reports": res.Races, "race_detector_enabled": res.RaceEnabled, "exhaustive": false, "stress_stage_operations_without_detector_64_goroutines": res.StressOperations})
	if res.Races > 0 {
		r.Violate(ev.Violation{Kind: "data-race", Case: map[string]any{"pass": "free-running -race pass over all scenarios"}, Observed: res.FirstReport, Expected: "no race report"})
	}
	for _, m := range res.Mismatches {
		r.Violate(ev.Violation{Kind: "concurrent-result-differs", Case: map[string]any{"pass": "free-running -race pass"}, Observed: m, Expected: "the sequential result"})
	}
	if res.Crash != "" {
		r.Violate(ev.Violation{Kind: "concurrent-crash", Case: map[string]any{"pass": "free-running -race pass"}, Observed: res.Crash, Expected: "all operations return"})
	}
}

// Z renders a score without the sign of a zero: the v2 base equation yields -0 for a vector
// without impact, and -0 == 0; a result that differs only in that sign is not a different result.
func Z(x float64) float64 { return x + 0 }
