package scen

import (
	"fmt"
	"strings"

	v2 "github.com/goark/go-cvss/v2/metric"
	v3 "github.com/goark/go-cvss/v3/metric"
)

// State-directed scenarios (round 6).  The catalogue's vectors are fixed in advance; a process-wide
// table that is indexed by a hash of the metric values (a direct-mapped score cache, a ring of
// slots) only misbehaves when two threads work on two DIFFERENT vectors that land in the SAME
// entry, and which vectors do is decided by the library's code, not by the harness.  The explorer
// therefore first looks (sequentially, from a cold start each time) which package-level location
// each of several thousand vectors writes, groups vectors that write the same location, and turns
// every group into scenarios: the guidance's "two keys that are forced to collide", with the
// collision found by observing the implementation's state.  On a tree without input-keyed
// package-level state (the pinned one) no group exists and nothing is added.
type CollisionGroup struct {
	Ver     int      `json:"cvss"`
	Path    string   `json:"package_level_location"`
	Vectors []string `json:"vectors"`
	// Query: the single query on an already decoded object that writes the location ("" when only
	// decoding does); the score scenarios of the group run just this query, which keeps their
	// executions short enough for preemption bound 3 and for the pass over all schedules
	Query string `json:"query,omitempty"`
}

// CollisionQueries: the single queries tried by the discovery pass.
var CollisionQueries = []string{"Score", "BaseScore", "TemporalScore", "Severity", "BaseSeverity", "Encode", "GetError"}

// DecodeFor decodes a candidate; QueryOn runs one query on the result.
func DecodeFor(ver int, s string) any {
	if ver == 3 {
		m, err := v3.NewEnvironmental().Decode(s)
		if err != nil {
			return nil
		}
		return m
	}
	m, err := v2.NewEnvironmental().Decode(s)
	if err != nil {
		return nil
	}
	return m
}

func QueryOn(o any, q string) string {
	switch m := o.(type) {
	case *v3.Environmental:
		switch q {
		case "Score":
			return fmt.Sprint(Z(m.Score()))
		case "BaseScore":
			return fmt.Sprint(Z(m.BaseMetrics().Score()))
		case "TemporalScore":
			return fmt.Sprint(Z(m.TemporalMetrics().Score()))
		case "Severity":
			return fmt.Sprint(m.Severity())
		case "BaseSeverity":
			return fmt.Sprint(m.BaseMetrics().Severity())
		case "Encode":
			e, err := m.Encode()
			return fmt.Sprint(e, err)
		case "GetError":
			return fmt.Sprint(m.GetError())
		}
	case *v2.Environmental:
		switch q {
		case "Score":
			return fmt.Sprint(Z(m.Score()))
		case "BaseScore":
			return fmt.Sprint(Z(m.Base.Score()))
		case "TemporalScore":
			return fmt.Sprint(Z(m.Temporal.Score()))
		case "Severity":
			return fmt.Sprint(m.Severity())
		case "BaseSeverity":
			return fmt.Sprint(m.Base.Severity())
		case "Encode":
			e, err := m.Encode()
			return fmt.Sprint(e, err)
		case "GetError":
			return fmt.Sprint(m.GetError())
		}
	}
	return "nil"
}

var collisionScenarios []Scenario
var collisionsLoaded bool

func scoreOf(ver int, s string) func() string {
	if ver == 3 {
		m, err := v3.NewEnvironmental().Decode(s)
		if err != nil {
			return func() string { return "error: " + err.Error() }
		}
		return func() string {
			return fmt.Sprint(Z(m.Score()), m.Severity(), Z(m.TemporalMetrics().Score()), Z(m.BaseMetrics().Score()), m.BaseMetrics().Severity())
		}
	}
	m, err := v2.NewEnvironmental().Decode(s)
	if err != nil {
		return func() string { return "error: " + err.Error() }
	}
	return func() string {
		return fmt.Sprint(Z(m.Score()), m.Severity(), Z(m.Temporal.Score()), Z(m.Base.Score()), m.Base.Severity())
	}
}

// CollisionOp: what the discovery pass runs for one candidate vector.
func CollisionOp(ver int, s string) string {
	var b strings.Builder
	if ver == 3 {
		m, err := v3.NewEnvironmental().Decode(s)
		if err != nil {
			return "error: " + err.Error()
		}
		e, _ := m.Encode()
		fmt.Fprint(&b, Z(m.Score()), m.Severity(), Z(m.TemporalMetrics().Score()), Z(m.BaseMetrics().Score()), e)
		return b.String()
	}
	m, err := v2.NewEnvironmental().Decode(s)
	if err != nil {
		return "error: " + err.Error()
	}
	e, _ := m.Encode()
	fmt.Fprint(&b, Z(m.Score()), m.Severity(), Z(m.Temporal.Score()), Z(m.Base.Score()), e)
	return b.String()
}

// LoadCollisions turns the groups into operations and scenarios (once per process).
func LoadCollisions(gs []CollisionGroup) {
	if collisionsLoaded {
		return
	}
	collisionsLoaded = true
	for gi, g := range gs {
		g := g
		var scoreOps, decOps []int
		for i, vec := range g.Vectors {
			if i >= 3 {
				break
			}
			vec := vec
			n1 := fmt.Sprintf("collision group %d (%s): Score() and Severity() of every view of an object decoded before from %s", gi, g.Path, vec)
			mk := func(e *Env, slot int) func() string { return scoreOf(g.Ver, vec) }
			if g.Query != "" {
				n1 = fmt.Sprintf("collision group %d (%s): the query %s on an object decoded before from %s", gi, g.Path, g.Query, vec)
				mk = func(e *Env, slot int) func() string {
					o := DecodeFor(g.Ver, vec)
					return func() string { return QueryOn(o, g.Query) }
				}
			}
			Ops = append(Ops, Op{Name: n1, Make: mk})
			bulkNames[n1] = true
			scoreOps = append(scoreOps, len(Ops)-1)
			n2 := fmt.Sprintf("collision group %d (%s): decode, score and encode %s", gi, g.Path, vec)
			Ops = append(Ops, Op{Name: n2, Make: func(e *Env, slot int) func() string { return func() string { return CollisionOp(g.Ver, vec) } }})
			bulkNames[n2] = true
			decOps = append(decOps, len(Ops)-1)
		}
		if len(scoreOps) < 2 {
			continue
		}
		tag := fmt.Sprintf(" [colliding vectors, group %d]", gi)
		collisionScenarios = append(collisionScenarios,
			Scenario{"scores of two pre-decoded objects" + tag, scoreOps[:2], false},
			Scenario{"two decode-score-encode operations" + tag, decOps[:2], false},
			Scenario{"a score || a decode-score-encode" + tag, []int{scoreOps[0], decOps[1]}, false})
		if len(scoreOps) >= 3 {
			collisionScenarios = append(collisionScenarios, Scenario{"scores of three pre-decoded objects" + tag, scoreOps[:3], false})
		}
	}
}

// Collisions returns the state-directed scenarios.
func Collisions() []Scenario { return collisionScenarios }

// IsCollision reports whether a scenario is a state-directed one.
func (s Scenario) IsCollision() bool { return strings.Contains(s.Name, " [colliding vectors, group ") }

// CollisionCandidates: the vectors offered to the discovery pass — every base vector of both
// versions with rotating temporal and environmental values.
func CollisionCandidates(ver int) []string {
	var out []string
	if ver == 3 {
		codes := [][]string{{"N", "A", "L", "P"}, {"L", "H"}, {"N", "L", "H"}, {"N", "R"}, {"U", "C"}, {"H", "L", "N"}, {"H", "L", "N"}, {"H", "L", "N"}}
		names := []string{"AV", "AC", "PR", "UI", "S", "C", "I", "A"}
		n := 0
		var rec func(i int, cur []string)
		rec = func(i int, cur []string) {
			if i == len(names) {
				body := strings.Join(cur, "/")
				k := n
				n++
				sfx := []string{"/E:F/CR:H/MAV:L", "/RL:W/IR:L/MS:C/MC:H", "/RC:R/AR:M/MPR:N/MI:L", "/E:U/RL:O/MAC:H/MUI:R/MA:N", ""}[k%5]
				out = append(out, fmt.Sprintf("CVSS:3.%d/%s%s", k%2, body, sfx))
				return
			}
			for _, c := range codes[i] {
				rec(i+1, append(append([]string{}, cur...), names[i]+":"+c))
			}
		}
		rec(0, nil)
		return out
	}
	codes2 := [][]string{{"L", "A", "N"}, {"H", "M", "L"}, {"M", "S", "N"}, {"N", "P", "C"}, {"N", "P", "C"}, {"N", "P", "C"}}
	names2 := []string{"AV", "AC", "Au", "C", "I", "A"}
	n := 0
	var rec2 func(i int, cur []string)
	rec2 = func(i int, cur []string) {
		if i == len(names2) {
			body := strings.Join(cur, "/")
			k := n
			n++
			for j, sfx := range []string{"", "/E:F/RL:OF/RC:C/CDP:L/TD:H/CR:M/IR:H/AR:L", "/E:POC/RL:W/RC:UR", "/CDP:H/TD:M/CR:H/IR:L/AR:ND"} {
				if j == 0 || j == 1+k%3 {
					out = append(out, body+sfx)
				}
			}
			return
		}
		for _, c := range codes2[i] {
			rec2(i+1, append(append([]string{}, cur...), names2[i]+":"+c))
		}
	}
	rec2(0, nil)
	return out
}
