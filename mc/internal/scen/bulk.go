package scen

import (
	"fmt"
	"strings"
	"sync"

	v2 "github.com/goark/go-cvss/v2/metric"
	v3 "github.com/goark/go-cvss/v3/metric"
)

// BulkVectors is the number of vectors each goroutine of BulkScoring scores.
const BulkVectors = 2*2592 + 729

// BulkScoring: every goroutine decodes and scores ALL v3 base vectors (both versions) and all v2
// base vectors on private objects, each in its own order, at the same time; the results are then
// compared with a sequential pass made afterwards.  Many different vectors in flight at once is
// what a process-wide direct-mapped or last-entry cache needs in order to hand one vector another
// vector's score (free-running: sampling, the complement of the controlled scheduler).
func BulkScoring(goroutines int) []string {
	var vecs []string
	codes := [][]string{{"N", "A", "L", "P"}, {"L", "H"}, {"N", "L", "H"}, {"N", "R"}, {"U", "C"}, {"H", "L", "N"}, {"H", "L", "N"}, {"H", "L", "N"}}
	names := []string{"AV", "AC", "PR", "UI", "S", "C", "I", "A"}
	var rec func(i int, cur []string)
	rec = func(i int, cur []string) {
		if i == len(names) {
			body := strings.Join(cur, "/")
			vecs = append(vecs, "CVSS:3.0/"+body+"/E:F", "CVSS:3.1/"+body+"/RC:R/MS:C")
			return
		}
		for _, c := range codes[i] {
			rec(i+1, append(append([]string{}, cur...), names[i]+":"+c))
		}
	}
	rec(0, nil)
	codes2 := [][]string{{"L", "A", "N"}, {"H", "M", "L"}, {"M", "S", "N"}, {"N", "P", "C"}, {"N", "P", "C"}, {"N", "P", "C"}}
	names2 := []string{"AV", "AC", "Au", "C", "I", "A"}
	var rec2 func(i int, cur []string)
	rec2 = func(i int, cur []string) {
		if i == len(names2) {
			vecs = append(vecs, strings.Join(cur, "/")+"/E:F/RL:OF/RC:C/CDP:L/TD:H/CR:M/IR:H/AR:L")
			return
		}
		for _, c := range codes2[i] {
			rec2(i+1, append(append([]string{}, cur...), names2[i]+":"+c))
		}
	}
	rec2(0, nil)
	score := func(s string) string {
		if strings.HasPrefix(s, "CVSS:") {
			m, err := v3.NewEnvironmental().Decode(s)
			if err != nil {
				return "error " + err.Error()
			}
			return fmt.Sprint(Z(m.Base.Score()), Z(m.Temporal.Score()), Z(m.Score()), m.Severity())
		}
		m, err := v2.NewEnvironmental().Decode(s)
		if err != nil {
			return "error " + err.Error()
		}
		return fmt.Sprint(Z(m.Base.Score()), Z(m.Temporal.Score()), Z(m.Score()), m.Severity())
	}
	got := make([][]string, goroutines)
	var wg sync.WaitGroup
	start := make(chan struct{})
	for g := 0; g < goroutines; g++ {
		g := g
		got[g] = make([]string, len(vecs))
		wg.Add(1)
		go func() {
			defer wg.Done()
			<-start
			stride := []int{1, 7, 11, 13, 17, 19, 23, 29}[g%8]
			for k := 0; k < len(vecs); k++ {
				i := (k*stride + g*97) % len(vecs)
				got[g][i] = score(vecs[i])
			}
		}()
	}
	close(start)
	wg.Wait()
	var mism []string
	for i, s := range vecs {
		want := score(s)
		for g := range got {
			if got[g][i] != want && got[g][i] != "" && len(mism) < 5 {
				mism = append(mism, fmt.Sprintf("bulk scoring: %s scored %q while other vectors were scored concurrently, sequentially %q", s, got[g][i], want))
			}
		}
	}
	return mism
}

// Stress: many goroutines (more than cores), each decoding, encoding and scoring vectors of its
// own on private objects for a fixed number of rounds, free-running and WITHOUT the race detector
// (which slows the library so much that narrow windows close).  Defects that need three or more
// goroutines inside one lock-free structure at once (an ABA in a free list of scratch buffers,
// round 6: C08-B-r6, C10-A-r6) are out of reach of the bounded interleaving search; this stage is
// sampling, the labelled complement, and can only ever add detections.
func Stress(goroutines, rounds int) (mism []string, ops int64) {
	type job struct {
		s    string
		want string
	}
	run := func(s string) string {
		if strings.HasPrefix(s, "CVSS:") {
			m, err := v3.NewEnvironmental().Decode(s)
			if err != nil {
				return "error " + err.Error()
			}
			e, _ := m.Encode()
			return fmt.Sprint(e, m.String() == e, m.BaseMetrics().String(), Z(m.Score()))
		}
		m, err := v2.NewEnvironmental().Decode(s)
		if err != nil {
			return "error " + err.Error()
		}
		e, _ := m.Encode()
		return fmt.Sprint(e, m.String() == e, m.Base.String(), Z(m.Score()))
	}
	jobs := make([][]job, goroutines)
	for g := range jobs {
		for k := 0; k < 6; k++ {
			jobs[g] = append(jobs[g], job{s: bulkVec3(g, k+g)}, job{s: bulkVec2(g, k+2*g)})
		}
		jobs[g] = append(jobs[g], job{s: vec3[g%len(vec3)]}, job{s: vec2[g%len(vec2)]}, job{s: bad3[g%len(bad3)]}, job{s: bad2[g%len(bad2)]})
	}
	got := make([][]string, goroutines)
	var wg sync.WaitGroup
	start := make(chan struct{})
	for g := 0; g < goroutines; g++ {
		g := g
		wg.Add(1)
		go func() {
			defer wg.Done()
			defer func() {
				if p := recover(); p != nil {
					got[g] = append(got[g], fmt.Sprintf("0\x00PANIC: %v", p))
				}
			}()
			<-start
			first := map[int]string{}
			for r := 0; r < rounds; r++ {
				for i, j := range jobs[g] {
					res := run(j.s)
					if f, ok := first[i]; !ok {
						first[i] = res
					} else if f != res && len(got[g]) < 3 {
						got[g] = append(got[g], fmt.Sprintf("%d\x00%s", i, res))
					}
				}
			}
			for i := range jobs[g] {
				got[g] = append(got[g], fmt.Sprintf("%d\x00%s", i, first[i]))
			}
		}()
	}
	close(start)
	wg.Wait()
	for g := range jobs {
		ops += int64(rounds * len(jobs[g]))
		for _, rec := range got[g] {
			p := strings.SplitN(rec, "\x00", 2)
			var i int
			fmt.Sscan(p[0], &i)
			if want := run(jobs[g][i].s); p[1] != want && len(mism) < 5 {
				mism = append(mism, fmt.Sprintf("stress stage (%d goroutines, private objects): %s gave %q, sequentially %q", goroutines, jobs[g][i].s, p[1], want))
			}
		}
	}
	return mism, ops
}
