package scen

import (
	"fmt"
	"strings"
	"sync"

	v2 "github.com/goark/go-cvss/v2/metric"
	v3 "github.com/goark/go-cvss/v3/metric"
)

// BulkVectors is the number of vectors each goroutine of BulkScoring scores.
const BulkVectors = 2*2592 + 729

// BulkScoring: every goroutine decodes and scores ALL v3 base vectors (both versions) and all v2
// base vectors on private objects, each in its own order, at the same time; the results are then
// compared with a sequential pass made afterwards.  Many different vectors in flight at once is
// what a process-wide direct-mapped or last-entry cache needs in order to hand one vector another
// vector's score (free-running: sampling, the complement of the controlled scheduler).
func BulkScoring(goroutines int) []string {
	var vecs []string
	codes := [][]string{{"N", "A", "L", "P"}, {"L", "H"}, {"N", "L", "H"}, {"N", "R"}, {"U", "C"}, {"H", "L", "N"}, {"H", "L", "N"}, {"H", "L", "N"}}
	names := []string{"AV", "AC", "PR", "UI", "S", "C", "I", "A"}
	var rec func(i int, cur []string)
	rec = func(i int, cur []string) {
		if i == len(names) {
			body := strings.Join(cur, "/")
			vecs = append(vecs, "CVSS:3.0/"+body+"/E:F", "CVSS:3.1/"+body+"/RC:R/MS:C")
			return
		}
		for _, c := range codes[i] {
			rec(i+1, append(append([]string{}, cur...), names[i]+":"+c))
		}
	}
	rec(0, nil)
	codes2 := [][]string{{"L", "A", "N"}, {"H", "M", "L"}, {"M", "S", "N"}, {"N", "P", "C"}, {"N", "P", "C"}, {"N", "P", "C"}}
	names2 := []string{"AV", "AC", "Au", "C", "I", "A"}
	var rec2 func(i int, cur []string)
	rec2 = func(i int, cur []string) {
		if i == len(names2) {
			vecs = append(vecs, strings.Join(cur, "/")+"/E:F/RL:OF/RC:C/CDP:L/TD:H/CR:M/IR:H/AR:L")
			return
		}
		for _, c := range codes2[i] {
			rec2(i+1, append(append([]string{}, cur...), names2[i]+":"+c))
		}
	}
	rec2(0, nil)
	score := func(s string) string {
		if strings.HasPrefix(s, "CVSS:") {
			m, err := v3.NewEnvironmental().Decode(s)
			if err != nil {
				return "error " + err.Error()
			}
			return fmt.Sprint(m.Base.Score(), m.Temporal.Score(), m.Score(), m.Severity())
		}
		m, err := v2.NewEnvironmental().Decode(s)
		if err != nil {
			return "error " + err.Error()
		}
		return fmt.Sprint(m.Base.Score(), m.Temporal.Score(), m.Score(), m.Severity())
	}
	got := make([][]string, goroutines)
	var wg sync.WaitGroup
	start := make(chan struct{})
	for g := 0; g < goroutines; g++ {
		g := g
		got[g] = make([]string, len(vecs))
		wg.Add(1)
		go func() {
			defer wg.Done()
			<-start
			stride := []int{1, 7, 11, 13, 17, 19, 23, 29}[g%8]
			for k := 0; k < len(vecs); k++ {
				i := (k*stride + g*97) % len(vecs)
				got[g][i] = score(vecs[i])
			}
		}()
	}
	close(start)
	wg.Wait()
	var mism []string
	for i, s := range vecs {
		want := score(s)
		for g := range got {
			if got[g][i] != want && got[g][i] != "" && len(mism) < 5 {
				mism = append(mism, fmt.Sprintf("bulk scoring: %s scored %q while other vectors were scored concurrently, sequentially %q", s, got[g][i], want))
			}
		}
	}
	return mism
}
