// Package scen is the scenario catalogue of the SCHED engine (DESIGN.md §5.4): small closed
// drivers — 2 or 3 operations issued from different threads, over a shared decoded object or
// over distinct objects.  It only uses the library's public API, so the same bodies run under
// the controlled scheduler (instrumented build) and free under the race detector.
package scen

import (
	"fmt"
	"io"
	"strings"

	"cvssmc/internal/dump"

	v2 "github.com/goark/go-cvss/v2/metric"
	v3 "github.com/goark/go-cvss/v3/metric"
	"github.com/goark/go-cvss/v3/report"
	"golang.org/x/text/language"
)

// vectors per thread slot: same metrics, different values, so that anything shared between
// operations that should be private collides visibly.
var vec3 = []string{
	"CVSS:3.1/AV:A/AC:H/PR:L/UI:N/S:C/C:L/I:H/A:L/E:P/RL:O/RC:U/CR:L/IR:M/AR:L/MAV:P/MAC:L/MPR:L/MUI:R/MS:C/MC:H/MI:H/MA:H",
	"CVSS:3.0/AV:N/AC:L/PR:N/UI:R/S:U/C:H/I:N/A:N/E:F/RL:W/RC:R/CR:H/IR:L/AR:M/MAV:L/MAC:H/MPR:N/MUI:N/MS:U/MC:L/MI:N/MA:L",
	"CVSS:3.1/AV:P/AC:L/PR:H/UI:N/S:U/C:N/I:L/A:H/E:U/RL:T/RC:C/CR:M/IR:H/AR:H/MAV:N/MAC:L/MPR:H/MUI:R/MS:X/MC:N/MI:L/MA:X",
}
var bad3 = []string{
	"CVSS:3.1/AV:A/AC:H/PR:L/UI:N/S:C/C:L/I:H/A:L/E:P/RL:O/RC:U/CR:L/IR:M/AR:L/MAV:P/MAC:L/MPR:L/MUI:R/MS:C/MC:H/MI:H/MA:Q",
	"CVSS:3.0/AV:N/AC:L/PR:N/UI:R/S:U/C:H/I:N/A:N/E:F/E:F",
	"CVSS:3.2/AV:P/AC:L/PR:H/UI:N/S:U/C:N/I:L/A:H",
}
var vec2 = []string{
	"AV:N/AC:L/Au:N/C:N/I:N/A:C/E:F/RL:OF/RC:C/CDP:H/TD:H/CR:M/IR:M/AR:H",
	"AV:L/AC:H/Au:M/C:C/I:P/A:N/E:U/RL:W/RC:UC/CDP:L/TD:L/CR:L/IR:H/AR:ND",
	"AV:A/AC:M/Au:S/C:P/I:C/A:P/E:POC/RL:TF/RC:UR/CDP:MH/TD:M/CR:H/IR:L/AR:M",
}
var bad2 = []string{
	"AV:N/AC:L/Au:N/C:N/I:N/A:C/E:F/RL:OF/RC:C/CDP:H/TD:H/CR:M/IR:M/AR:Q",
	"AV:L/AC:H/Au:M/C:C/I:P/A:N/RL:W/E:U/RC:UC",
	"AV:A/AC:M/Au:S/C:P/I:C/E:POC/RL:TF/RC:UR",
}

// one template text per thread slot (a cache of parsed templates shared between exports must not
// mix them up)
var tmpls = []string{
	"{{.Vector}} {{.EnvironmentalScore}} {{.SeverityName}}={{.SeverityValue}} {{.BaseReport.Vector}} {{.MAVName}}={{.MAVValue}} {{.TemporalReport.SeverityValue}}",
	"{{define \"row\"}}<{{.}}>{{end}}{{with .TemporalReport}}{{.Vector}} {{.TemporalScore}}{{end}}|{{.CRName}}={{.CRValue}}|{{if .MSValue}}{{.MSName}}{{end}} {{template \"row\" .BaseScore}}",
	"{{define \"row\"}}[{{.}}]{{end}}{{template \"row\" .AVValue}}{{template \"row\" .MAValue}} {{.Version}} {{.EnvironmentalScore | printf \"%6s\"}}",
}

// Env holds the objects of one execution.
type Env struct {
	E3  []*v3.Environmental // receiver per thread slot (all the same pointer in shared mode)
	E2  []*v2.Environmental
	Rep []*report.EnvironmentalReport // report per thread slot (one object in shared mode), already exported once
	// Twin: every slot has an object of its own, but all slots work on the SAME inputs (slot 0's
	// vector, rejected strings and template text): whatever the library keys by input text or by
	// metric values — a decode cache, an intern table, a parsed-template cache — is then hit under
	// one key from every thread at once (fill races, publication before initialisation).
	Twin bool
}

// K is the input index of a thread slot: the slot itself, or 0 for every slot in twin mode.
func (e *Env) K(slot int) int {
	if e.Twin {
		return 0
	}
	return slot
}

const warmTemplate = "{{.Version}} warm-up {{.BaseScore}}"

// NewEnv decodes the receivers: shared => every slot uses one object.
func NewEnv(slots int, shared bool, twin ...bool) *Env {
	e := &Env{Twin: len(twin) > 0 && twin[0]}
	for i := 0; i < slots; i++ {
		k := e.K(i)
		if shared {
			k = 0
		}
		if shared && i > 0 {
			e.E3, e.E2 = append(e.E3, e.E3[0]), append(e.E2, e.E2[0])
			continue
		}
		m3, err := v3.NewEnvironmental().Decode(vec3[k%len(vec3)])
		if err != nil {
			panic("scen: " + err.Error())
		}
		m2, err := v2.NewEnvironmental().Decode(vec2[k%len(vec2)])
		if err != nil {
			panic("scen: " + err.Error())
		}
		e.E3, e.E2 = append(e.E3, m3), append(e.E2, m2)
	}
	return e
}

// WarmReports builds the report objects and exports each once with a third template text, so
// that whatever an export remembers (a parsed template, a buffer) is in its "used before" state
// when the concurrent phase starts.
func (e *Env) WarmReports(shared bool) {
	for i := range e.E3 {
		if shared && i > 0 {
			e.Rep = append(e.Rep, e.Rep[0])
			continue
		}
		rep := report.NewEnvironmental(e.E3[i], report.WithOptionsLanguage(language.Japanese))
		if r, err := rep.ExportWithString(warmTemplate); err == nil {
			io.ReadAll(r)
		}
		e.Rep = append(e.Rep, rep)
	}
}

// Dump renders the objects' complete state without calling any library code.
func (e *Env) Dump() string {
	var b strings.Builder
	for i := range e.E3 {
		b.WriteString(dump.Of(e.E3[i]))
		b.WriteString(dump.Of(e.E2[i]))
	}
	for i := range e.Rep {
		b.WriteString(dump.Of(e.Rep[i]))
	}
	return b.String()
}

// Observe renders the shared objects' observables (for the end-state check).
func (e *Env) Observe() string {
	var b strings.Builder
	for i := range e.E3 {
		s, err := e.E3[i].Encode()
		fmt.Fprintf(&b, "%v %v %q %v %s|", Z(e.E3[i].Score()), e.E3[i].Severity(), s, err, dump.Of(e.E3[i]))
		s2, err2 := e.E2[i].Encode()
		fmt.Fprintf(&b, "%v %v %q %v %s|", Z(e.E2[i].Score()), e.E2[i].Severity(), s2, err2, dump.Of(e.E2[i]))
	}
	return b.String()
}

// Op is one operation of the catalogue; Make binds it to a thread slot of an Env.
type Op struct {
	Name     string
	Receiver bool // operates on the slot's receiver (shared or own)
	Make     func(e *Env, slot int) func() string
}

// bulkNames: long operations used only in the Bulk() scenarios, not in the pair catalogue
var bulkNames = map[string]bool{}

// Pause is a scheduling point of the driver itself, between obtaining a reader from an export and
// draining it: a reader that is only a view into something the library reuses is overwritten
// exactly there.  The scheduler build sets it to a yield, the race pass to runtime.Gosched.
var Pause = func() {}

// FreshName, when set (race pass), returns a metric name never used before in the process, so that
// a table which only grows for unknown names is written in every iteration; the scheduler build
// leaves it nil (fixed names keep executions reproducible; its package-level state is reset
// before every execution anyway).
var FreshName func() string

// errStr renders an error completely: message and, for the library's structured errors, the
// context (%+v names the function and the offending token) — an error value that shows another
// goroutine's token is a wrong result too.
func errStr(err error) string {
	if err == nil {
		return "nil"
	}
	return err.Error() + " " + fmt.Sprintf("%+v", err)
}

// inputs rejected only for a metric name outside the decoder's level, one per thread slot (the
// deferred unsupported-metric error carries the token)
var unsup3 = []string{
	"CVSS:3.1/AV:A/AC:H/PR:L/UI:N/S:C/C:L/I:H/A:L/ZZ:N",
	"CVSS:3.0/AV:N/AC:L/PR:N/UI:R/S:U/C:H/I:N/A:N/QQ:H/E:F",
	"CVSS:3.1/Au:N/AV:P/AC:L/PR:H/UI:N/S:U/C:N/I:L/A:H",
}
var unsupBase3 = []string{
	"CVSS:3.1/AV:A/AC:H/PR:L/UI:N/S:C/C:L/I:H/A:L/E:P",
	"CVSS:3.0/AV:N/AC:L/PR:N/UI:R/S:U/C:H/I:N/A:N/MAV:L",
	"CVSS:3.1/RC:C/AV:P/AC:L/PR:H/UI:N/S:U/C:N/I:L/A:H",
}
var unsupBase2 = []string{
	"AV:N/AC:L/Au:N/C:N/I:N/A:C/E:F",
	"AV:L/AC:H/Au:M/C:C/I:P/A:N/CDP:L",
	"AV:A/AC:M/Au:S/C:P/I:C/A:P/RC:UR",
}
var unsup2 = []string{
	"AV:N/AC:L/Au:N/C:N/I:N/A:C/ZZ:N",
	"AV:L/AC:H/Au:M/C:C/I:P/A:N/QQ:H",
	"AV:A/AC:M/Au:S/C:P/I:C/A:P/E:POC/RL:TF/RC:UR/PR:N",
}

func export(rep interface {
	ExportWithString(string) (io.Reader, error)
}, slot int) string {
	r, err := rep.ExportWithString(tmpls[slot%len(tmpls)])
	if err != nil {
		return "error: " + err.Error()
	}
	Pause()
	b, _ := io.ReadAll(r)
	return string(b)
}

// twenty short base vectors per thread slot (bulk operations: rings and pools of up to ~16 entries wrap)
func bulkVec3(slot, k int) string {
	av := []string{"N", "A", "L", "P"}
	cia := []string{"H", "L", "N"}
	return fmt.Sprintf("CVSS:3.%d/AV:%s/AC:%s/PR:%s/UI:%s/S:%s/C:%s/I:%s/A:%s", (slot+k)%2, av[k%4], []string{"L", "H"}[(k/4)%2], cia[(k+slot)%3], []string{"N", "R"}[k%2], []string{"U", "C"}[(k/2)%2], cia[k%3], cia[(k/3)%3], cia[(k+1+slot)%3])
}

func bulkVec2(slot, k int) string {
	a := []string{"N", "A", "L"}
	c := []string{"N", "P", "C"}
	return fmt.Sprintf("AV:%s/AC:%s/Au:%s/C:%s/I:%s/A:%s", a[k%3], []string{"L", "M", "H"}[(k/3)%3], []string{"N", "S", "M"}[(k+slot)%3], c[k%3], c[(k/3)%3], c[(k+1+slot)%3])
}

// Ops is the catalogue O.
var Ops = []Op{
	{"v3 decode accepted", false, func(e *Env, slot int) func() string {
		return func() string {
			m, err := v3.NewEnvironmental().Decode(vec3[e.K(slot)%len(vec3)])
			if err != nil {
				return "error: " + err.Error()
			}
			s, _ := m.Encode()
			return fmt.Sprint(Z(m.Score()), m.Severity(), s, dump.Of(m))
		}
	}},
	{"v3 decode rejected", false, func(e *Env, slot int) func() string {
		return func() string {
			m, err := v3.NewEnvironmental().Decode(bad3[e.K(slot)%len(bad3)])
			return fmt.Sprint(m == nil, errStr(err))
		}
	}},
	{"v3 decode rejected for an unsupported metric", false, func(e *Env, slot int) func() string {
		return func() string {
			in, fresh := unsup3[e.K(slot)%len(unsup3)], ""
			if FreshName != nil {
				fresh = FreshName()
				in = "CVSS:3.1/AV:A/AC:H/PR:L/UI:N/S:C/C:L/I:H/A:L/" + fresh + ":N"
			}
			m, err := v3.NewEnvironmental().Decode(in)
			m2, err2 := v3.NewBase().Decode(unsupBase3[e.K(slot)%len(unsupBase3)]) // a temporal / environmental name at the base decoder
			res := fmt.Sprint(m == nil, errStr(err), m2 == nil, errStr(err2))
			if fresh != "" {
				res = strings.ReplaceAll(res, fresh, "<fresh name>")
			}
			return res
		}
	}},
	{"v3 Score", true, func(e *Env, slot int) func() string {
		return func() string {
			m := e.E3[slot]
			return fmt.Sprint(Z(m.Score()), Z(m.TemporalMetrics().Score()), Z(m.BaseMetrics().Score()))
		}
	}},
	{"v3 Severity", true, func(e *Env, slot int) func() string {
		return func() string { return fmt.Sprint(e.E3[slot].Severity(), e.E3[slot].BaseMetrics().Severity()) }
	}},
	{"v3 GetError", true, func(e *Env, slot int) func() string {
		return func() string { return errStr(e.E3[slot].GetError()) }
	}},
	{"v3 Encode/String", true, func(e *Env, slot int) func() string {
		return func() string {
			s, err := e.E3[slot].Encode()
			return fmt.Sprint(s, errStr(err), e.E3[slot].String() == s, e.E3[slot].BaseMetrics().String())
		}
	}},
	{"v3 report.NewEnvironmental(en)", true, func(e *Env, slot int) func() string {
		return func() string { return dump.Of(report.NewEnvironmental(e.E3[slot])) }
	}},
	{"v3 report.NewEnvironmental(ja)", true, func(e *Env, slot int) func() string {
		return func() string {
			return dump.Of(report.NewEnvironmental(e.E3[slot], report.WithOptionsLanguage(language.Japanese)))
		}
	}},
	{"v3 report + ExportWithString", true, func(e *Env, slot int) func() string {
		return func() string {
			return export(report.NewEnvironmental(e.E3[slot], report.WithOptionsLanguage(language.Japanese)), e.K(slot))
		}
	}},
	{"v3 report + ExportWithString, same template in every thread", true, func(e *Env, slot int) func() string {
		return func() string {
			return export(report.NewEnvironmental(e.E3[slot], report.WithOptionsLanguage(language.Japanese)), 1)
		}
	}},
	{"v3 ExportWithString on a report built before, same template in every thread", true, func(e *Env, slot int) func() string {
		return func() string { return export(e.Rep[slot], 2) }
	}},
	{"v3 ExportWith(reader) on a report built before, one template per thread", true, func(e *Env, slot int) func() string {
		return func() string {
			r, err := e.Rep[slot].ExportWith(strings.NewReader(tmpls[e.K(slot)%len(tmpls)]))
			if err != nil {
				return "error: " + err.Error()
			}
			b, _ := io.ReadAll(r)
			return string(b)
		}
	}},
	{"v3 export of the base / temporal / environmental report (by thread) of one object, same template", true, func(e *Env, slot int) func() string {
		return func() string {
			const t = "{{.Vector}} {{.SeverityName}}={{.SeverityValue}} {{.BaseScore}} {{.AVValue}}"
			opt := report.WithOptionsLanguage(language.Japanese)
			var rep interface {
				ExportWithString(string) (io.Reader, error)
			}
			switch slot % 3 {
			case 0:
				rep = report.NewBase(e.E3[slot].BaseMetrics(), opt)
			case 1:
				rep = report.NewTemporal(e.E3[slot].TemporalMetrics(), opt)
			default:
				rep = report.NewEnvironmental(e.E3[slot], opt)
			}
			r, err := rep.ExportWithString(t)
			if err != nil {
				return "error: " + err.Error()
			}
			b, _ := io.ReadAll(r)
			return string(b)
		}
	}},
	{"v2 decode accepted", false, func(e *Env, slot int) func() string {
		return func() string {
			m, err := v2.NewEnvironmental().Decode(vec2[e.K(slot)%len(vec2)])
			if err != nil {
				return "error: " + err.Error()
			}
			s, _ := m.Encode()
			return fmt.Sprint(Z(m.Score()), m.Severity(), s, dump.Of(m))
		}
	}},
	{"v2 decode rejected", false, func(e *Env, slot int) func() string {
		return func() string {
			m, err := v2.NewEnvironmental().Decode(bad2[e.K(slot)%len(bad2)])
			return fmt.Sprint(m == nil, errStr(err))
		}
	}},
	{"v2 decode rejected for an unsupported metric", false, func(e *Env, slot int) func() string {
		return func() string {
			in, fresh := unsup2[e.K(slot)%len(unsup2)], ""
			if FreshName != nil {
				fresh = FreshName()
				in = "AV:N/AC:L/Au:N/C:N/I:N/A:C/" + fresh + ":N"
			}
			m, err := v2.NewEnvironmental().Decode(in)
			m2, err2 := v2.NewBase().Decode(unsupBase2[e.K(slot)%len(unsupBase2)])
			res := fmt.Sprint(m == nil, errStr(err), m2 == nil, errStr(err2))
			if fresh != "" {
				res = strings.ReplaceAll(res, fresh, "<fresh name>")
			}
			return res
		}
	}},
	{"v2 Score", true, func(e *Env, slot int) func() string {
		return func() string {
			m := e.E2[slot]
			return fmt.Sprint(Z(m.Score()), Z(m.Temporal.Score()), Z(m.Base.Score()), m.Severity())
		}
	}},
	{"v2 Encode/String", true, func(e *Env, slot int) func() string {
		return func() string {
			s, err := e.E2[slot].Encode()
			return fmt.Sprint(s, errStr(err), e.E2[slot].String() == s, e.E2[slot].Base.String())
		}
	}},
	{"v2 GetError", true, func(e *Env, slot int) func() string {
		return func() string { return errStr(e.E2[slot].GetError()) + fmt.Sprint(e.E2[slot].IsEmpty()) }
	}},
}

// bulkOps: long operations used only in the Bulk() scenarios.
var bulkOps = []Op{
	{Name: "v3 base decode x20 (distinct vectors)", Make: func(e *Env, slot int) func() string {
		return func() string {
			var b strings.Builder
			for k := 0; k < 20; k++ {
				m, err := v3.NewBase().Decode(bulkVec3(e.K(slot), k))
				if err != nil {
					b.WriteString("error: " + err.Error() + ";")
					continue
				}
				fmt.Fprint(&b, Z(m.Score()), m.String(), ";")
			}
			return b.String()
		}
	}},
	{Name: "v3 base decode (one vector)", Make: func(e *Env, slot int) func() string {
		return func() string {
			m, err := v3.NewBase().Decode(bulkVec3(e.K(slot), 7))
			if err != nil {
				return "error: " + err.Error()
			}
			return fmt.Sprint(Z(m.Score()), m.String())
		}
	}},
	{Name: "v2 base decode x20 (distinct vectors)", Make: func(e *Env, slot int) func() string {
		return func() string {
			var b strings.Builder
			for k := 0; k < 20; k++ {
				m, err := v2.NewBase().Decode(bulkVec2(e.K(slot), k))
				if err != nil {
					b.WriteString("error: " + err.Error() + ";")
					continue
				}
				fmt.Fprint(&b, Z(m.Score()), m.String(), ";")
			}
			return b.String()
		}
	}},
	{Name: "v2 base decode (one vector)", Make: func(e *Env, slot int) func() string {
		return func() string {
			m, err := v2.NewBase().Decode(bulkVec2(e.K(slot), 7))
			if err != nil {
				return "error: " + err.Error()
			}
			return fmt.Sprint(Z(m.Score()), m.String())
		}
	}},
	{Name: "v3 base report export x20, each reader drained after the next export", Make: func(e *Env, slot int) func() string {
		return func() string {
			var b strings.Builder
			m, err := v3.NewBase().Decode(bulkVec3(e.K(slot), 3))
			if err != nil {
				return "error: " + err.Error()
			}
			rep := report.NewBase(m)
			var prev io.Reader
			for k := 0; k < 20; k++ {
				r, err := rep.ExportWithString(fmt.Sprintf("%d/%d {{.Vector}} {{.BaseScore}}", e.K(slot), k))
				if prev != nil {
					x, _ := io.ReadAll(prev)
					b.Write(x)
					b.WriteString(";")
				}
				prev = nil
				if err == nil {
					prev = r
				}
			}
			if prev != nil {
				x, _ := io.ReadAll(prev)
				b.Write(x)
			}
			return b.String()
		}
	}},
	{Name: "v3 decodes rejected at the first element (constructor and nil receiver)", Make: func(e *Env, slot int) func() string {
		return func() string {
			m, err := v3.NewEnvironmental().Decode([]string{"CVSS:3.1/X", "CVSS:3.0/Y:", "CVSS:3.1/:Z"}[e.K(slot)%3])
			var nb *v3.Base
			m2, err2 := nb.Decode([]string{"CVSS:9/", "CVS:3.1/AV:N", "CVSS:3.1:1"}[e.K(slot)%3])
			return fmt.Sprint(m == nil, errStr(err), m2 == nil, errStr(err2))
		}
	}},
	{Name: "v2 decodes rejected at the first element (constructor and nil receiver)", Make: func(e *Env, slot int) func() string {
		return func() string {
			m, err := v2.NewEnvironmental().Decode([]string{"X", "Y:", ":Z"}[e.K(slot)%3])
			var nb *v2.Base
			m2, err2 := nb.Decode([]string{"AV:Q", "AV", "ZZ:N"}[e.K(slot)%3])
			return fmt.Sprint(m == nil, errStr(err), m2 == nil, errStr(err2))
		}
	}},
	{Name: "v3 decode, assign fields of the own object, score", Make: func(e *Env, slot int) func() string {
		return func() string {
			// inputs by K (identical in twin mode), the assignments by slot: objects that two threads
			// obtained from one input text must still be independent of each other (round 6,
			// C02-B-r6: concurrent identical decodes coalesced, followers get a shallow copy)
			m, err := v3.NewEnvironmental().Decode(vec3[e.K(slot)%len(vec3)])
			if err != nil {
				return "error: " + err.Error()
			}
			Pause()
			m.BaseMetrics().AV = v3.GetAttackVector([]string{"P", "N", "L"}[slot%3])
			m.TemporalMetrics().RL = v3.GetRemediationLevel([]string{"O", "U", "W"}[slot%3])
			m.MC = v3.GetModifiedConfidentialityImpact([]string{"N", "H", "L"}[slot%3])
			Pause()
			s, _ := m.Encode()
			return fmt.Sprint(Z(m.Score()), Z(m.TemporalMetrics().Score()), Z(m.BaseMetrics().Score()), s)
		}
	}},
	{Name: "v2 decode, assign fields of the own object, score", Make: func(e *Env, slot int) func() string {
		return func() string {
			m, err := v2.NewEnvironmental().Decode(vec2[e.K(slot)%len(vec2)])
			if err != nil {
				return "error: " + err.Error()
			}
			Pause()
			m.Base.AV = v2.GetAccessVector([]string{"L", "N", "A"}[slot%3])
			m.Temporal.RL = v2.GetRemediationLevel([]string{"OF", "U", "W"}[slot%3])
			m.CDP = v2.GetCollateralDamagePotential([]string{"N", "H", "L"}[slot%3])
			Pause()
			s, _ := m.Encode()
			return fmt.Sprint(Z(m.Score()), Z(m.Temporal.Score()), Z(m.Base.Score()), s)
		}
	}},
	{Name: "v3 ExportWith(reader) of a 70 KiB template", Make: func(e *Env, slot int) func() string {
		return func() string {
			// a template larger than any plausible small-template window (round 6, C16-B-r6: large
			// templates staged in one shared spill buffer and handed on without a copy)
			m, err := v3.NewBase().Decode(bulkVec3(e.K(slot), 9))
			if err != nil {
				return "error: " + err.Error()
			}
			k := e.K(slot)
			text := fmt.Sprintf("%d:{{.Vector}} ", k) + strings.Repeat(fmt.Sprintf("{{/* filler %d */}}", k), 5000) + " {{.BaseScore}} " + strings.Repeat(string(rune('a'+k)), 200)
			r, err := report.NewBase(m).ExportWith(strings.NewReader(text))
			if err != nil {
				return "error: " + err.Error()
			}
			Pause()
			b, _ := io.ReadAll(r)
			return string(b)
		}
	}},
	{Name: "v3 base report export x150 (distinct templates)", Make: func(e *Env, slot int) func() string {
		return func() string {
			// more distinct templates than a bounded cache of 128 parsed templates holds (round 6,
			// C16-A-r6: a slot claimed before parsing and filled after it was recycled)
			m, err := v3.NewBase().Decode(bulkVec3(e.K(slot), 11))
			if err != nil {
				return "error: " + err.Error()
			}
			rep := report.NewBase(m)
			var b strings.Builder
			for k := 0; k < 150; k++ {
				r, err := rep.ExportWithString(fmt.Sprintf("%d/%d {{.Vector}} {{.BaseScore}}", e.K(slot), k))
				if err != nil {
					b.WriteString("error: " + err.Error() + ";")
					continue
				}
				x, _ := io.ReadAll(r)
				b.Write(x)
				b.WriteString(";")
			}
			return b.String()
		}
	}},
	{Name: "v3 base report export of one template (also exported by the x150 thread)", Make: func(e *Env, slot int) func() string {
		return func() string {
			m, err := v3.NewBase().Decode(bulkVec3(e.K(slot), 11))
			if err != nil {
				return "error: " + err.Error()
			}
			r, err := report.NewBase(m).ExportWithString(fmt.Sprintf("victim of slot %d {{.Vector}} {{.BaseScore}} {{.AVValue}}", e.K(slot)))
			if err != nil {
				return "error: " + err.Error()
			}
			x, _ := io.ReadAll(r)
			return string(x)
		}
	}},
	{Name: "v3 base report export, reader drained after a pause", Make: func(e *Env, slot int) func() string {
		return func() string {
			m, err := v3.NewBase().Decode(bulkVec3(e.K(slot), 5))
			if err != nil {
				return "error: " + err.Error()
			}
			return export(report.NewBase(m), e.K(slot))
		}
	}},
}

func init() {
	for _, o := range bulkOps {
		bulkNames[o.Name] = true
	}
	Ops = append(Ops, bulkOps...)
}

// Scenario is a closed driver: ops[i] runs on thread i.
type Scenario struct {
	Name   string
	Ops    []int
	Shared bool
}

const twinSuffix = " [distinct objects, same inputs]"

// Twin: distinct objects, identical inputs in every thread (see Twins).
func (s Scenario) Twin() bool { return strings.HasSuffix(s.Name, twinSuffix) }

// Setup builds the fresh objects and thread bodies of one execution.
func (s Scenario) Setup() (*Env, []func() string) {
	e := NewEnv(len(s.Ops), s.Shared, s.Twin())
	for _, oi := range s.Ops {
		if strings.Contains(Ops[oi].Name, "Export") {
			e.WarmReports(s.Shared)
			break
		}
	}
	var bodies []func() string
	for slot, oi := range s.Ops {
		bodies = append(bodies, Ops[oi].Make(e, slot))
	}
	return e, bodies
}

func opIndex(name string) int {
	for i, o := range Ops {
		if o.Name == name {
			return i
		}
	}
	panic("scen: no op " + name)
}

// Pairs returns every unordered pair {a, b} including a||a, once with shared receivers (when
// at least one operation takes a receiver) and once with distinct receivers.
func Pairs() []Scenario {
	var out []Scenario
	for a := range Ops {
		for b := a; b < len(Ops); b++ {
			if bulkNames[Ops[a].Name] || bulkNames[Ops[b].Name] {
				continue
			}
			name := Ops[a].Name + " || " + Ops[b].Name
			if Ops[a].Receiver || Ops[b].Receiver {
				out = append(out, Scenario{name + " [shared object]", []int{a, b}, true})
			}
			out = append(out, Scenario{name + " [distinct objects]", []int{a, b}, false})
		}
	}
	return out
}

// Twins: distinct objects, identical inputs in every thread — a||a for every operation of the pair
// catalogue, every pair of a decode with a query / report / export of the same version, and
// three threads of the same decode.  On the pinned tree nothing is keyed by input, so these add
// nothing new; they exist for caches, intern tables and lazily filled entries whose fill or
// publication races only show when two threads miss (or one fills and one hits) on ONE key.
func Twins() []Scenario {
	var out []Scenario
	for a := range Ops {
		if bulkNames[Ops[a].Name] {
			continue
		}
		out = append(out, Scenario{Ops[a].Name + " || " + Ops[a].Name + twinSuffix, []int{a, a}, false})
	}
	for _, ver := range []string{"v3 ", "v2 "} {
		d := opIndex(ver + "decode accepted")
		for b := range Ops {
			if b == d || bulkNames[Ops[b].Name] || !Ops[b].Receiver || !strings.HasPrefix(Ops[b].Name, ver) {
				continue
			}
			out = append(out, Scenario{Ops[d].Name + " || " + Ops[b].Name + twinSuffix, []int{d, b}, false})
		}
		out = append(out, Scenario{Ops[d].Name + " x3" + twinSuffix, []int{d, d, d}, false})
	}
	for _, n := range []string{"v3 base decode (one vector)", "v2 base decode (one vector)", "v3 base report export, reader drained after a pause", "v3 decode, assign fields of the own object, score", "v2 decode, assign fields of the own object, score", "v3 ExportWith(reader) of a 70 KiB template"} {
		a := opIndex(n)
		out = append(out, Scenario{n + " || the same" + twinSuffix, []int{a, a}, false})
	}
	return out
}

// Triples are the 3-thread scenarios.
func Triples() []Scenario {
	ix := opIndex
	return []Scenario{
		{"v3 decode || v3 Score || v3 report+export [shared object]", []int{ix("v3 decode accepted"), ix("v3 Score"), ix("v3 report + ExportWithString")}, true},
		{"v3 Severity || v3 Encode/String || v3 GetError [shared object]", []int{ix("v3 Severity"), ix("v3 Encode/String"), ix("v3 GetError")}, true},
		{"v3 decode || v2 decode || v3 decode rejected [distinct objects]", []int{ix("v3 decode accepted"), ix("v2 decode accepted"), ix("v3 decode rejected")}, false},
		{"v3 export || v3 export || v3 report(en) [distinct objects]", []int{ix("v3 report + ExportWithString"), ix("v3 report + ExportWithString"), ix("v3 report.NewEnvironmental(en)")}, false},
		{"v2 Score || v2 Encode/String || v2 decode [shared object]", []int{ix("v2 Score"), ix("v2 Encode/String"), ix("v2 decode accepted")}, true},
		{"v3 export on one report, same template, three threads [shared object]", []int{ix("v3 ExportWithString on a report built before, same template in every thread"), ix("v3 ExportWithString on a report built before, same template in every thread"), ix("v3 ExportWith(reader) on a report built before, one template per thread")}, true},
	}
}

// Bulk: one thread runs a long sequence of operations while the other is in the middle of one
// (a ring or pool that the library fills round-robin wraps within a single preemption), and export
// readers that are drained late (round 5, C01-A-r5, C09-B-r5, C16-A-r5, C01-B-r5).
func Bulk() []Scenario {
	ix := opIndex
	return []Scenario{
		{"v3 base decode x20 || v3 base decode (one vector) [distinct objects]", []int{ix("v3 base decode x20 (distinct vectors)"), ix("v3 base decode (one vector)")}, false},
		{"v3 base decode x20 || v3 decode accepted [distinct objects]", []int{ix("v3 base decode x20 (distinct vectors)"), ix("v3 decode accepted")}, false},
		{"v2 base decode x20 || v2 base decode (one vector) [distinct objects]", []int{ix("v2 base decode x20 (distinct vectors)"), ix("v2 base decode (one vector)")}, false},
		{"v3 base report export x20 (readers drained late) || v3 base report export, reader drained after a pause [distinct objects]", []int{ix("v3 base report export x20, each reader drained after the next export"), ix("v3 base report export, reader drained after a pause")}, false},
		{"v3 base report export, reader drained after a pause || the same [distinct objects]", []int{ix("v3 base report export, reader drained after a pause"), ix("v3 base report export, reader drained after a pause")}, false},
		{"v3 decode, assign own fields, score || the same [distinct objects]", []int{ix("v3 decode, assign fields of the own object, score"), ix("v3 decode, assign fields of the own object, score")}, false},
		{"v2 decode, assign own fields, score || the same [distinct objects]", []int{ix("v2 decode, assign fields of the own object, score"), ix("v2 decode, assign fields of the own object, score")}, false},
		{"v3 ExportWith(reader) of a 70 KiB template || the same [distinct objects]", []int{ix("v3 ExportWith(reader) of a 70 KiB template"), ix("v3 ExportWith(reader) of a 70 KiB template")}, false},
		{"v3 ExportWith(reader) of a 70 KiB template || v3 base report export, reader drained after a pause [distinct objects]", []int{ix("v3 ExportWith(reader) of a 70 KiB template"), ix("v3 base report export, reader drained after a pause")}, false},
		{"v3 base report export x150 (distinct templates) || v3 base report export of one template [distinct objects]", []int{ix("v3 base report export x150 (distinct templates)"), ix("v3 base report export of one template (also exported by the x150 thread)")}, false},
	}
}

// Tiny: decodes that are rejected at their first element are the shortest executions that pass
// through a decoder's entry and exit (where pools, spare lists and work areas are taken and given
// back); two and three threads of them are short enough for the pass over ALL schedules.
func Tiny() []Scenario {
	a, b := opIndex("v3 decodes rejected at the first element (constructor and nil receiver)"), opIndex("v2 decodes rejected at the first element (constructor and nil receiver)")
	return []Scenario{
		{"v3 tiny decodes || v3 tiny decodes [distinct objects]", []int{a, a}, false},
		{"v2 tiny decodes || v2 tiny decodes [distinct objects]", []int{b, b}, false},
		{"v3 tiny decodes || v2 tiny decodes [distinct objects]", []int{a, b}, false},
		{"v3 tiny decodes || v3 tiny decodes || v3 tiny decodes [distinct objects]", []int{a, a, a}, false},
		{"v2 tiny decodes || v2 tiny decodes || v2 tiny decodes [distinct objects]", []int{b, b, b}, false},
		{"v3 tiny decodes || v2 tiny decodes || v3 tiny decodes [distinct objects]", []int{a, b, a}, false},
	}
}

// QueryTriples: every multiset of three of the short query operations on ONE shared decoded
// object of each version (84 scenarios): three readers at once, which is where a reader that
// quietly writes (a lazily filled field, an in-place normalisation) needs two other threads to
// show.
func QueryTriples() []Scenario {
	names := []string{"v3 Score", "v3 Severity", "v3 GetError", "v3 Encode/String", "v2 Score", "v2 Encode/String", "v2 GetError"}
	var out []Scenario
	for a := 0; a < len(names); a++ {
		for b := a; b < len(names); b++ {
			for c := b; c < len(names); c++ {
				out = append(out, Scenario{names[a] + " || " + names[b] + " || " + names[c] + " [shared object]", []int{opIndex(names[a]), opIndex(names[b]), opIndex(names[c])}, true})
			}
		}
	}
	return out
}

// SameEntry reports whether the scenario involves a shared object or the same entry point twice
// (the pairs explored at the higher preemption bound in the quick tier).
func (s Scenario) SameEntry() bool {
	if len(s.Ops) == 2 && s.Ops[0] == s.Ops[1] {
		return true
	}
	return false
}
