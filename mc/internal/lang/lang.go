// Package lang is the reference recogniser / defect classifier (DESIGN.md §4.3) and the
// canonical encoder / field model (§4.4), written from the property texts C07–C11 on top of the
// specification tables of package spec.  It never calls the library.
package lang

import (
	"regexp"
	"sort"
	"strings"

	"cvssmc/internal/spec"
)

// Defect names equal the sentinel names of lib.Sentinels.
const (
	InvalidVector    = "InvalidVector"
	NotSupportVer    = "NotSupportVer"
	NotSupportMetric = "NotSupportMetric"
	SameMetric       = "SameMetric"
	InvalidValue     = "InvalidValue"
	NoBase           = "NoBase"
	NoTemporal       = "NoTemporal"
	NoEnv            = "NoEnv"
	Misordered       = "Misordered"
)

var verRe = regexp.MustCompile(`^[0-9]+\.[0-9]+$`)

// Verdict is the reference's opinion on one input string.
type Verdict struct {
	Accept  bool
	Defects map[string]bool // admissible sentinels when rejected
	// for accepted inputs: the token multiset as name -> code, and the version label (v3)
	Tokens map[string]string
	Ver    string
}

// DefectList returns the sorted admissible defects.
func (v Verdict) DefectList() []string {
	r := []string{}
	for k := range v.Defects {
		r = append(r, k)
	}
	sort.Strings(r)
	return r
}

// Classify is the reference recogniser for decoder (ver, level) on input s.
func Classify(ver, level int, s string) Verdict {
	if ver == 3 {
		return classifyV3(level, s)
	}
	return classifyV2(level, s)
}

func classifyV3(level int, s string) Verdict {
	d := map[string]bool{}
	toks := strings.Split(s, "/")
	p := strings.Split(toks[0], ":")
	verLabel := ""
	if len(p) != 2 || p[0] != "CVSS" {
		d[InvalidVector] = true
	} else if p[1] != "3.0" && p[1] != "3.1" {
		d[NotSupportVer] = true
		if !verRe.MatchString(p[1]) {
			// garbage after "CVSS:" may be called a malformed prefix as well
			d[InvalidVector] = true
		}
	} else {
		verLabel = p[1]
	}
	seen := map[string]string{}
	for _, t := range toks[1:] {
		m := strings.Split(t, ":")
		if len(m) != 2 || m[0] == "" || m[1] == "" {
			d[InvalidVector] = true
			continue
		}
		def := spec.Find(3, m[0])
		if def == nil || def.Level > level {
			d[NotSupportMetric] = true
			continue
		}
		if _, dup := seen[m[0]]; dup {
			d[SameMetric] = true
		} else {
			seen[m[0]] = m[1]
		}
		if !def.Has(m[1]) {
			d[InvalidValue] = true
		}
	}
	for _, b := range spec.At(3, 0) {
		if _, ok := seen[b.Name]; !ok {
			d[NoBase] = true
		}
	}
	v := Verdict{Accept: len(d) == 0, Defects: d}
	if v.Accept {
		v.Tokens, v.Ver = seen, verLabel
	}
	return v
}

func classifyV2(level int, s string) Verdict {
	d := map[string]bool{}
	toks := strings.Split(s, "/")
	seen := map[string]string{}
	order := []string{}
	for _, t := range toks {
		m := strings.Split(t, ":")
		if len(m) != 2 || m[0] == "" || m[1] == "" {
			d[InvalidVector] = true
			continue
		}
		def := spec.Find(2, m[0])
		if def == nil || def.Level > level {
			d[NotSupportMetric] = true
			continue
		}
		if _, dup := seen[m[0]]; dup {
			d[SameMetric] = true
		} else {
			seen[m[0]] = m[1]
			order = append(order, m[0])
		}
		if !def.Has(m[1]) {
			d[InvalidValue] = true
		}
	}
	canon := []string{}
	for lv := 0; lv <= level; lv++ {
		g := spec.At(2, lv)
		n := 0
		for _, m := range g {
			if _, ok := seen[m.Name]; ok {
				n++
				canon = append(canon, m.Name)
			}
		}
		switch {
		case lv == 0 && n < len(g):
			d[NoBase] = true
		case lv == 1 && n > 0 && n < len(g):
			d[NoTemporal] = true
		case lv == 2 && n > 0 && n < len(g):
			d[NoEnv] = true
		}
	}
	if strings.Join(order, ",") != strings.Join(canon, ",") {
		d[Misordered] = true
	}
	v := Verdict{Accept: len(d) == 0, Defects: d}
	if v.Accept {
		v.Tokens = seen
	}
	return v
}

// Canonical returns the canonical encoding the property C10 prescribes for an accepted token
// multiset when viewed at `level` (which may be lower than the decoder's level: projection).
func Canonical(ver, level int, verLabel string, tokens map[string]string) string {
	parts := []string{}
	if ver == 3 {
		parts = append(parts, "CVSS:"+verLabel)
		for _, m := range spec.UpTo(3, level) {
			code, ok := tokens[m.Name]
			if !ok {
				if m.Level == 0 {
					continue
				}
				code = m.NDCode()
			}
			parts = append(parts, m.Name+":"+code)
		}
		return strings.Join(parts, "/")
	}
	for _, m := range spec.UpTo(2, level) {
		if code, ok := tokens[m.Name]; ok {
			parts = append(parts, m.Name+":"+code)
		}
	}
	return strings.Join(parts, "/")
}

// GroupPresent reports whether a v2 token set contains the group of the level.
func GroupPresent(tokens map[string]string, level int) bool {
	for _, m := range spec.At(2, level) {
		if _, ok := tokens[m.Name]; ok {
			return true
		}
	}
	return false
}

// Project keeps only the tokens of metrics up to level.
func Project(ver, level int, tokens map[string]string) map[string]string {
	r := map[string]string{}
	for k, v := range tokens {
		if m := spec.Find(ver, k); m != nil && m.Level <= level {
			r[k] = v
		}
	}
	return r
}

// Model is the reference decoder state after a token sequence (DESIGN.md §5.2): what the
// decoder must remember besides the object.
type Model struct {
	Seen     map[string]string // first occurrence of each supported metric name -> code as written
	Valid    bool              // every seen code is a specification code
	Deferred bool              // an unsupported-metric token occurred
	Aborted  bool              // a token with an aborting defect occurred (malformed, duplicate, bad value)
	InOrder  bool              // v2: first occurrences are in canonical order
}

// Scan runs the reference model over tokens (v3: without the version prefix).
func Scan(ver, level int, toks []string) Model {
	m := Model{Seen: map[string]string{}, Valid: true}
	order := []string{}
	for _, t := range toks {
		p := strings.Split(t, ":")
		if len(p) != 2 || p[0] == "" || p[1] == "" {
			m.Aborted = true
			continue
		}
		def := spec.Find(ver, p[0])
		if def == nil || def.Level > level {
			m.Deferred = true
			continue
		}
		if _, dup := m.Seen[p[0]]; dup {
			m.Aborted = true
			continue
		}
		m.Seen[p[0]] = p[1]
		order = append(order, p[0])
		if !def.Has(p[1]) {
			m.Aborted = true
			m.Valid = false
		}
	}
	canon := []string{}
	for _, d := range spec.UpTo(ver, level) {
		if _, ok := m.Seen[d.Name]; ok {
			canon = append(canon, d.Name)
		}
	}
	m.InOrder = strings.Join(order, ",") == strings.Join(canon, ",")
	return m
}

// Key renders the model state canonically (sorted tokens).
func (m Model) Key() string {
	ks := make([]string, 0, len(m.Seen))
	for k, v := range m.Seen {
		ks = append(ks, k+":"+v)
	}
	sort.Strings(ks)
	return strings.Join(ks, "/")
}
