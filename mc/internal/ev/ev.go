// Package ev writes evidence files, violation replay artefacts and handles known findings.
package ev

import (
	"bufio"
	"encoding/json"
	"fmt"
	"os"
	"path/filepath"
	"sort"
	"strconv"
	"strings"
	"sync"
	"time"
)

// Root is /verif (overridable for tests through VERIF_ROOT).
func Root() string {
	if r := os.Getenv("VERIF_ROOT"); r != "" {
		return r
	}
	return "/verif"
}

// OutRoot is where evidence and replay artefacts are written: VERIF_OUT if set (used when the
// checks are run against a deliberately broken tree in the lab), else Root().
func OutRoot() string {
	if r := os.Getenv("VERIF_OUT"); r != "" {
		return r
	}
	return Root()
}

// Run collects what one check run covered.
type Run struct {
	ID    string
	Tier  string
	Level string // evidence level: exploration | model_checking | fault_enumeration
	Seed  int
	start time.Time

	mu          sync.Mutex
	Cov         map[string]any
	Assumptions []string
	samples     []any
	violations  []Violation
	known       map[string]int64 // known-finding id -> cases explained
	knownEx     map[string]string
	infra       []string
}

// Violation is one replayable counterexample.
type Violation struct {
	Kind     string         `json:"kind"` // which engine/sub-check
	Case     map[string]any `json:"case"`
	Observed string         `json:"observed"`
	Expected string         `json:"expected"`
	GoTest   string         `json:"go_test,omitempty"`
}

func New(id, tier, level string) *Run {
	seed, _ := strconv.Atoi(os.Getenv("VERIF_SEED"))
	return &Run{ID: id, Tier: tier, Level: level, Seed: seed, start: time.Now(), Cov: map[string]any{}, known: map[string]int64{}, knownEx: map[string]string{}}
}

// Phase runs fn and records its wall time under coverage.phases_s.
func (r *Run) Phase(name string, fn func()) {
	t0 := time.Now()
	fn()
	d := time.Since(t0).Seconds()
	r.mu.Lock()
	defer r.mu.Unlock()
	ph, _ := r.Cov["phases_s"].(map[string]float64)
	if ph == nil {
		ph = map[string]float64{}
	}
	ph[name] += float64(int(d*100)) / 100
	r.Cov["phases_s"] = ph
}

// Add adds n to an integer coverage counter.
func (r *Run) Add(key string, n int64) {
	r.mu.Lock()
	defer r.mu.Unlock()
	cur, _ := r.Cov[key].(int64)
	r.Cov[key] = cur + n
}

// Set sets a coverage key.
func (r *Run) Set(key string, v any) {
	r.mu.Lock()
	defer r.mu.Unlock()
	r.Cov[key] = v
}

// Get returns an integer counter.
func (r *Run) Get(key string) int64 {
	r.mu.Lock()
	defer r.mu.Unlock()
	cur, _ := r.Cov[key].(int64)
	return cur
}

// Sample records one explored case (at most 12 are kept).
func (r *Run) Sample(v any) {
	r.mu.Lock()
	defer r.mu.Unlock()
	if len(r.samples) < 12 {
		r.samples = append(r.samples, v)
	}
}

// Assume records an assumption / trusted-base statement.
func (r *Run) Assume(s string) {
	r.mu.Lock()
	defer r.mu.Unlock()
	for _, a := range r.Assumptions {
		if a == s {
			return
		}
	}
	r.Assumptions = append(r.Assumptions, s)
}

// Violate records a violation (the first 20 are kept as artefacts, all are counted).
func (r *Run) Violate(v Violation) {
	r.mu.Lock()
	defer r.mu.Unlock()
	cur, _ := r.Cov["violating_cases"].(int64)
	r.Cov["violating_cases"] = cur + 1
	if len(r.violations) < 2000 {
		r.violations = append(r.violations, v)
	}
}

// Violations returns the number of violating cases seen so far.
func (r *Run) Violations() int64 { return r.Get("violating_cases") }

// Known counts a failing case that is explained by a listed known finding.
func (r *Run) Known(id, example string) { r.KnownN(id, 1, example) }

// KnownN counts n failing cases explained by a listed known finding.
func (r *Run) KnownN(id string, n int64, example string) {
	r.mu.Lock()
	defer r.mu.Unlock()
	r.known[id] += n
	if _, ok := r.knownEx[id]; !ok {
		r.knownEx[id] = example
	}
}

// Infra records an infrastructure problem (harness cannot decide; not a violation).
func (r *Run) Infra(msg string) {
	r.mu.Lock()
	defer r.mu.Unlock()
	if len(r.infra) < 20 {
		r.infra = append(r.infra, msg)
	}
}

// Export serialises what a worker process collected (counters, violations, infrastructure
// errors) for Merge in the parent.
func (r *Run) Export() []byte {
	r.mu.Lock()
	defer r.mu.Unlock()
	cnt := map[string]int64{}
	other := map[string]any{}
	for k, v := range r.Cov {
		if n, ok := v.(int64); ok {
			cnt[k] = n
		} else {
			other[k] = v
		}
	}
	b, _ := json.Marshal(map[string]any{"counters": cnt, "other": other, "violations": r.violations, "infra": r.infra, "samples": r.samples})
	return b
}

// Merge adds a worker's Export to this run: counters are summed, the rest is kept.
func (r *Run) Merge(data []byte) error {
	var in struct {
		Counters   map[string]int64 `json:"counters"`
		Other      map[string]any   `json:"other"`
		Violations []Violation      `json:"violations"`
		Infra      []string         `json:"infra"`
		Samples    []any            `json:"samples"`
	}
	if err := json.Unmarshal(data, &in); err != nil {
		return err
	}
	r.mu.Lock()
	defer r.mu.Unlock()
	for k, n := range in.Counters {
		cur, _ := r.Cov[k].(int64)
		r.Cov[k] = cur + n
	}
	for k, v := range in.Other {
		if _, ok := r.Cov[k]; !ok {
			r.Cov[k] = v
		}
	}
	r.violations = append(r.violations, in.Violations...)
	r.infra = append(r.infra, in.Infra...)
	for _, s := range in.Samples {
		if len(r.samples) < 12 {
			r.samples = append(r.samples, s)
		}
	}
	return nil
}

// Finish writes the evidence file, prints the verdict lines and returns the exit code.
func (r *Run) Finish() int {
	r.mu.Lock()
	defer r.mu.Unlock()
	wall := time.Since(r.start).Seconds()
	if len(r.samples) == 0 {
		r.samples = append(r.samples, "no sample recorded")
	}
	r.Cov["samples"] = r.samples
	if _, ok := r.Cov["exhaustive"]; !ok {
		r.Cov["exhaustive"] = false
	}
	if len(r.known) > 0 {
		kf := map[string]any{}
		for k, n := range r.known {
			kf[k] = map[string]any{"cases_explained": n, "example": r.knownEx[k]}
		}
		r.Cov["known_findings"] = kf
	}
	if len(r.infra) > 0 {
		r.Cov["infrastructure_errors"] = r.infra
	}
	out := map[string]any{
		"property_id": r.ID, "tier": r.Tier, "seed": r.Seed, "level": r.Level,
		"coverage": r.Cov, "assumptions": r.Assumptions, "wall_s": float64(int(wall*1000)) / 1000,
		"violations": min(len(r.violations), 20),
	}
	if r.Assumptions == nil {
		out["assumptions"] = []string{}
	}
	root := OutRoot()
	_ = os.MkdirAll(filepath.Join(root, "evidence"), 0o755)
	b, _ := json.MarshalIndent(out, "", " ")
	evp := filepath.Join(root, "evidence", r.ID+".json")
	if err := os.WriteFile(evp, append(b, '\n'), 0o644); err != nil {
		fmt.Println("INFRA: cannot write evidence:", err)
		return 2
	}
	ids := make([]string, 0, len(r.known))
	for k := range r.known {
		ids = append(ids, k)
	}
	sort.Strings(ids)
	for _, k := range ids {
		fmt.Printf("KNOWN-FINDING: property=%s %s (%d cases explained, e.g. %s)\n", r.ID, KnownText(k), r.known[k], r.knownEx[k])
	}
	if len(r.infra) > 0 {
		for _, m := range r.infra {
			fmt.Println("INFRA:", m)
		}
		fmt.Printf("%s %s: infrastructure error, no verdict (wall %.1fs)\n", r.ID, r.Tier, wall)
		return 2
	}
	if len(r.violations) > 0 {
		// the simplest counterexamples first (shortest case description), at most 20 artefacts
		size := func(v Violation) int { b, _ := json.Marshal(v.Case); return len(b) }
		sort.SliceStable(r.violations, func(i, j int) bool { return size(r.violations[i]) < size(r.violations[j]) })
		if len(r.violations) > 20 {
			r.violations = r.violations[:20]
		}
		_ = os.MkdirAll(filepath.Join(root, "replays"), 0o755)
		for i, v := range r.violations {
			p := filepath.Join(root, "replays", fmt.Sprintf("%s-%d.json", r.ID, i+1))
			doc := map[string]any{"property_id": r.ID, "tier": r.Tier, "violation": v}
			vb, _ := json.MarshalIndent(doc, "", " ")
			_ = os.WriteFile(p, append(vb, '\n'), 0o644)
			if i < 5 {
				fmt.Printf("  %s: %v\n    observed: %s\n    expected: %s\n", v.Kind, compact(v.Case), v.Observed, v.Expected)
			}
			fmt.Printf("VIOLATION property=%s replay=%s\n", r.ID, p)
		}
		fmt.Printf("%s %s: %d violating cases (wall %.1fs)\n", r.ID, r.Tier, r.Cov["violating_cases"], wall)
		return 1
	}
	fmt.Printf("%s %s: OK  %s (wall %.1fs)\n", r.ID, r.Tier, r.summary(), wall)
	return 0
}

func compact(m map[string]any) string {
	b, _ := json.Marshal(m)
	s := string(b)
	if len(s) > 400 {
		s = s[:400] + "…"
	}
	return s
}

func (r *Run) summary() string {
	keys := []string{}
	for k, v := range r.Cov {
		switch v.(type) {
		case int64, int, bool:
			keys = append(keys, k)
		}
	}
	sort.Strings(keys)
	parts := []string{}
	for _, k := range keys {
		parts = append(parts, fmt.Sprintf("%s=%v", k, r.Cov[k]))
	}
	return strings.Join(parts, " ")
}

// ---------------------------------------------------------------------------------------------
// known findings file: lines "known: property=<id> id=<finding-id> <text>" and
// "fixed: property=<id> <commit> <text>".  Never written at run time.

type KnownEntry struct {
	Property, ID, Text string
}

var (
	knownOnce sync.Once
	knownList []KnownEntry
)

func loadKnown() {
	f, err := os.Open(filepath.Join(Root(), "known_findings.txt"))
	if err != nil {
		return
	}
	defer f.Close()
	sc := bufio.NewScanner(f)
	for sc.Scan() {
		line := strings.TrimSpace(sc.Text())
		if !strings.HasPrefix(line, "known:") {
			continue
		}
		fs := strings.Fields(strings.TrimPrefix(line, "known:"))
		e := KnownEntry{}
		rest := []string{}
		for _, f := range fs {
			switch {
			case strings.HasPrefix(f, "property=") && e.Property == "":
				e.Property = strings.TrimPrefix(f, "property=")
			case strings.HasPrefix(f, "id=") && e.ID == "":
				e.ID = strings.TrimPrefix(f, "id=")
			default:
				rest = append(rest, f)
			}
		}
		e.Text = strings.Join(rest, " ")
		knownList = append(knownList, e)
	}
}

// IsKnown reports whether a known finding with this id is listed for the property.
func IsKnown(property, id string) bool {
	knownOnce.Do(loadKnown)
	for _, e := range knownList {
		if e.Property == property && e.ID == id {
			return true
		}
	}
	return false
}

// KnownText returns "id=<id> <text>" for printing.
func KnownText(id string) string {
	knownOnce.Do(loadKnown)
	for _, e := range knownList {
		if e.ID == id {
			return "id=" + id + " " + e.Text
		}
	}
	return "id=" + id
}
