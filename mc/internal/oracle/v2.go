package oracle

import (
	"math/big"
	"sort"
	"sync"
)

// Round1 returns the admissible tenths of round-to-one-decimal(x): one value, or both
// neighbours when x lies exactly halfway.
func Round1(x *big.Rat) []int { return roundN(x, 10) }

// Round2 is the same at two decimals (used only by the deviation model D1).
func Round2(x *big.Rat) []int { return roundN(x, 100) }

func roundN(x *big.Rat, scale int64) []int {
	y := new(big.Rat).Mul(x, big.NewRat(scale, 1))
	fl := new(big.Int).Div(y.Num(), y.Denom())
	fr := new(big.Rat).Sub(y, new(big.Rat).SetInt(fl))
	c := fr.Cmp(big.NewRat(1, 2))
	f := int(fl.Int64())
	switch {
	case c < 0:
		return []int{f}
	case c > 0:
		return []int{f + 1}
	}
	return []int{f, f + 1}
}

// V2 holds the v2 oracle tables.  Index conventions (spec order):
//
//	base index  bi = ((((av*3+ac)*3+au)*3+c)*3+i)*3+a
//	temporal    ti = 0 (group absent) or 1 + (e*5+rl)*4+rc
//	requirement ri = (cr*4+ir)*4+ar
//
// Scores are in tenths, offset by Off where they may be negative.
type V2 struct {
	Base   [729][]int       // admissible base scores
	Adj    [729][64][]int   // admissible adjusted base scores (specification)
	AdjNeg [729][64]bool    // the specification's adjusted base equation is negative
	AdjD1  [729][64][]int   // deviation model D1: adjusted impact rounded to two decimals first
	Temp   [151][101][]int  // [b+Off][ti]
	Env    [6][5][151][]int // [cdp][td][adjusted temporal + Off]
	Ties   int              // number of table entries with two admissible values
}

const Off = 50

var (
	v2once sync.Once
	v2tab  *V2
)

func GetV2() *V2 {
	v2once.Do(func() { v2tab = buildV2() })
	return v2tab
}

func impact2(c, i, a *big.Rat) *big.Rat {
	return mul(rat("10.41"), sub(one, mul(sub(one, c), sub(one, i), sub(one, a))))
}

func baseEq2(imp, expl *big.Rat) *big.Rat {
	f := rat("1.176")
	if imp.Sign() == 0 {
		f = rat("0")
	}
	return mul(sub(add(mul(rat("0.6"), imp), mul(rat("0.4"), expl)), rat("1.5")), f)
}

func tenth(t int) *big.Rat { return big.NewRat(int64(t), 10) }

func buildV2() *V2 {
	o := &V2{}
	wAV, wAC, wAu := weights(2, "AV", false), weights(2, "AC", false), weights(2, "Au", false)
	wCIA := weights(2, "C", false)
	wE, wRL, wRC := weights(2, "E", false), weights(2, "RL", false), weights(2, "RC", false)
	wCDP, wTD, wREQ := weights(2, "CDP", false), weights(2, "TD", false), weights(2, "CR", false)
	for b := -Off; b <= 100; b++ {
		o.Temp[b+Off][0] = []int{b}
		for e := 0; e < 5; e++ {
			for rl := 0; rl < 5; rl++ {
				for rc := 0; rc < 4; rc++ {
					s := Round1(mul(tenth(b), wE[e], wRL[rl], wRC[rc]))
					if len(s) > 1 {
						o.Ties++
					}
					o.Temp[b+Off][1+(e*5+rl)*4+rc] = s
				}
			}
		}
	}
	for ci := range wCDP {
		for ti := range wTD {
			for t := -Off; t <= 100; t++ {
				at := tenth(t)
				s := Round1(mul(add(at, mul(sub(rat("10"), at), wCDP[ci])), wTD[ti]))
				if len(s) > 1 {
					o.Ties++
				}
				o.Env[ci][ti][t+Off] = s
			}
		}
	}
	var wg sync.WaitGroup
	var mu sync.Mutex
	for av := 0; av < 3; av++ {
		for ac := 0; ac < 3; ac++ {
			for au := 0; au < 3; au++ {
				wg.Add(1)
				go func(av, ac, au int) {
					defer wg.Done()
					ties := 0
					expl := mul(rat("20"), wAV[av], wAC[ac], wAu[au])
					for c := 0; c < 3; c++ {
						for i := 0; i < 3; i++ {
							for a := 0; a < 3; a++ {
								bi := ((((av*3+ac)*3+au)*3+c)*3+i)*3 + a
								o.Base[bi] = Round1(baseEq2(impact2(wCIA[c], wCIA[i], wCIA[a]), expl))
								if len(o.Base[bi]) > 1 {
									ties++
								}
								for cr := 0; cr < 4; cr++ {
									for ir := 0; ir < 4; ir++ {
										for ar := 0; ar < 4; ar++ {
											ri := (cr*4+ir)*4 + ar
											ai := impact2(mul(wCIA[c], wREQ[cr]), mul(wCIA[i], wREQ[ir]), mul(wCIA[a], wREQ[ar]))
											if ai.Cmp(rat("10")) > 0 {
												ai = rat("10")
											}
											eq := baseEq2(ai, expl)
											o.Adj[bi][ri] = Round1(eq)
											o.AdjNeg[bi][ri] = eq.Sign() < 0
											if len(o.Adj[bi][ri]) > 1 {
												ties++
											}
											d := map[int]bool{}
											for _, h := range Round2(ai) {
												for _, v := range Round1(baseEq2(big.NewRat(int64(h), 100), expl)) {
													d[v] = true
												}
											}
											for v := range d {
												o.AdjD1[bi][ri] = append(o.AdjD1[bi][ri], v)
											}
											sort.Ints(o.AdjD1[bi][ri])
										}
									}
								}
							}
						}
					}
					mu.Lock()
					o.Ties += ties
					mu.Unlock()
				}(av, ac, au)
			}
		}
	}
	wg.Wait()
	return o
}

// TempSet returns the admissible temporal scores for base index bi and temporal index ti.
func (o *V2) TempSet(bi, ti int) []int {
	var r []int
	for _, b := range o.Base[bi] {
		r = appendU(r, o.Temp[b+Off][ti]...)
	}
	return r
}

func appendU(dst []int, xs ...int) []int {
	for _, x := range xs {
		dup := false
		for _, d := range dst {
			if d == x {
				dup = true
				break
			}
		}
		if !dup {
			dst = append(dst, x)
		}
	}
	return dst
}

// EnvSet returns the admissible environmental scores.  gi<0 (group absent) gives the temporal
// set.  neg reports the region where the specification's adjusted base equation is negative;
// there the set contains the chain evaluated on the negative tenth and, when that chain ends
// in a value that is not positive, 0 (severity is exempt in the whole region).
// With d1 the adjusted base score is taken from the deviation model D1 instead.
func (o *V2) EnvSet(bi, ti int, present bool, cdp, td, ri int, d1 bool) (set []int, neg bool) {
	if !present {
		return o.TempSet(bi, ti), false
	}
	ab := o.Adj[bi][ri]
	if d1 {
		ab = o.AdjD1[bi][ri]
	}
	for _, b0 := range ab {
		if b0 < 0 {
			neg = true
		}
		for _, at := range o.Temp[b0+Off][ti] {
			set = appendU(set, o.Env[cdp][td][at+Off]...)
		}
	}
	if o.AdjNeg[bi][ri] {
		neg = true
	}
	// "where the specification's equation itself is negative the library may report that
	// negative tenth or 0": 0 is admitted exactly when the chain evaluated on the negative
	// adjusted base score ends in a value that is not positive.  A chain that clamps the
	// adjusted base score to 0 and thereby ends in another positive tenth is not admitted
	// (round 4, C05-A-r4).
	if neg {
		for _, v := range set {
			if v <= 0 {
				set = appendU(set, 0)
				break
			}
		}
	}
	return set, neg
}
