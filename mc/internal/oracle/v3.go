// Package oracle holds the exact (math/big.Rat) scoring oracles of DESIGN.md §4.2.  No float
// enters any computation here; results are integers in tenths.  Indices are positions in the
// code lists of package spec.
package oracle

import (
	"math/big"
	"sync"

	"cvssmc/internal/spec"
)

func rat(s string) *big.Rat {
	r, ok := new(big.Rat).SetString(s)
	if !ok {
		panic("oracle: bad decimal " + s)
	}
	return r
}
func mul(a ...*big.Rat) *big.Rat {
	r := big.NewRat(1, 1)
	for _, x := range a {
		r.Mul(r, x)
	}
	return r
}
func sub(a, b *big.Rat) *big.Rat { return new(big.Rat).Sub(a, b) }
func add(a, b *big.Rat) *big.Rat { return new(big.Rat).Add(a, b) }
func pow(a *big.Rat, n int) *big.Rat {
	r := big.NewRat(1, 1)
	for i := 0; i < n; i++ {
		r.Mul(r, a)
	}
	return r
}
func minr(a, b *big.Rat) *big.Rat {
	if a.Cmp(b) < 0 {
		return a
	}
	return b
}

var one = big.NewRat(1, 1)

// Ceil1 is the mathematical round-up to one decimal (v3.0 text), result in tenths.
func Ceil1(x *big.Rat) int {
	y := new(big.Rat).Mul(x, big.NewRat(10, 1))
	fl := new(big.Int).Div(y.Num(), y.Denom()) // Euclidean division: floor for positive denominators
	if new(big.Rat).SetInt(fl).Cmp(y) == 0 {
		return int(fl.Int64())
	}
	return int(fl.Int64()) + 1
}

// Roundup31 is the v3.1 Appendix A procedure applied to the exact input, result in tenths.
func Roundup31(x *big.Rat) int {
	y := new(big.Rat).Mul(x, big.NewRat(100000, 1))
	y.Add(y, big.NewRat(1, 2))
	i := new(big.Int).Div(y.Num(), y.Denom()) // round half up (inputs are non-negative)
	m := new(big.Int).Mod(i, big.NewInt(10000))
	q := int(new(big.Int).Div(i, big.NewInt(10000)).Int64())
	if m.Sign() == 0 {
		return q
	}
	return q + 1
}

func weights(ver int, name string, changed bool) []*big.Rat {
	m := spec.Find(ver, name)
	r := make([]*big.Rat, len(m.Codes))
	for i, c := range m.Codes {
		w := c.W
		if changed && c.WC != "" {
			w = c.WC
		}
		if w == "" {
			w = "0"
		}
		r[i] = rat(w)
	}
	return r
}

// V3 is the complete set of v3 oracle tables.
type V3 struct {
	// Base[ver][s][c][i][a][av][ac][pr][ui] in tenths
	Base [2][2][3][3][3][4][2][3][2]int8
	// Pre[ver][effective scope][x][y][z][av][ac][pr][ui]: environmental score before the
	// temporal multiplication, x/y/z = requirement index*3 + effective impact index.
	Pre [2][2][12][12][12][4][2][3][2]int8
	// Temp[b][e][rl][rc]: Roundup(b/10 * E * RL * RC)
	Temp [101][5][5][4]int8
	// ModImpactNonPositive[ver][sc][x][y][z]
	NonPos [2][2][12][12][12]bool
	// CapBinds[x][y][z]: the 0.915 cap changed the value
	CapBinds [12][12][12]bool
	// Ambiguous counts cases where ceiling and the Appendix-A procedure disagree.
	Ambiguous int
}

var (
	v3once sync.Once
	v3tab  *V3
)

// GetV3 builds the tables once.
func GetV3() *V3 {
	v3once.Do(func() { v3tab = buildV3() })
	return v3tab
}

func roundup(ver int, x *big.Rat, amb *int) int {
	a, b := Ceil1(x), Roundup31(x)
	if a != b {
		*amb++
	}
	if ver == 0 {
		return a
	}
	return b
}

func buildV3() *V3 {
	o := &V3{}
	wAV, wAC, wUI := weights(3, "AV", false), weights(3, "AC", false), weights(3, "UI", false)
	wPR := [2][]*big.Rat{weights(3, "PR", false), weights(3, "PR", true)}
	wCIA := weights(3, "C", false)
	wREQ := weights(3, "CR", false)
	wE, wRL, wRC := weights(3, "E", false), weights(3, "RL", false), weights(3, "RC", false)
	var mu sync.Mutex
	var wg sync.WaitGroup
	// base
	for ver := 0; ver < 2; ver++ {
		for s := 0; s < 2; s++ {
			for c := 0; c < 3; c++ {
				for i := 0; i < 3; i++ {
					for a := 0; a < 3; a++ {
						iss := sub(one, mul(sub(one, wCIA[c]), sub(one, wCIA[i]), sub(one, wCIA[a])))
						var imp *big.Rat
						if s == 1 {
							imp = sub(mul(rat("7.52"), sub(iss, rat("0.029"))), mul(rat("3.25"), pow(sub(iss, rat("0.02")), 15)))
						} else {
							imp = mul(rat("6.42"), iss)
						}
						for av := 0; av < 4; av++ {
							for ac := 0; ac < 2; ac++ {
								for pr := 0; pr < 3; pr++ {
									for ui := 0; ui < 2; ui++ {
										if imp.Sign() <= 0 {
											o.Base[ver][s][c][i][a][av][ac][pr][ui] = 0
											continue
										}
										ex := mul(rat("8.22"), wAV[av], wAC[ac], wPR[s][pr], wUI[ui])
										var raw *big.Rat
										if s == 1 {
											raw = minr(mul(rat("1.08"), add(imp, ex)), rat("10"))
										} else {
											raw = minr(add(imp, ex), rat("10"))
										}
										o.Base[ver][s][c][i][a][av][ac][pr][ui] = int8(roundup(ver, raw, &o.Ambiguous))
									}
								}
							}
						}
					}
				}
			}
		}
	}
	// environmental, before temporal
	prod := make([]*big.Rat, 12)
	for r := 0; r < 4; r++ {
		for c := 0; c < 3; c++ {
			prod[r*3+c] = mul(wREQ[r], wCIA[c])
		}
	}
	for x := 0; x < 12; x++ {
		wg.Add(1)
		go func(x int) {
			defer wg.Done()
			amb := 0
			for y := 0; y < 12; y++ {
				for z := 0; z < 12; z++ {
					raw := sub(one, mul(sub(one, prod[x]), sub(one, prod[y]), sub(one, prod[z])))
					miss := minr(raw, rat("0.915"))
					o.CapBinds[x][y][z] = raw.Cmp(rat("0.915")) > 0
					for ver := 0; ver < 2; ver++ {
						for sc := 0; sc < 2; sc++ {
							var mi *big.Rat
							if sc == 1 {
								if ver == 1 {
									mi = sub(mul(rat("7.52"), sub(miss, rat("0.029"))), mul(rat("3.25"), pow(sub(mul(miss, rat("0.9731")), rat("0.02")), 13)))
								} else {
									mi = sub(mul(rat("7.52"), sub(miss, rat("0.029"))), mul(rat("3.25"), pow(sub(miss, rat("0.02")), 15)))
								}
							} else {
								mi = mul(rat("6.42"), miss)
							}
							o.NonPos[ver][sc][x][y][z] = mi.Sign() <= 0
							for av := 0; av < 4; av++ {
								for ac := 0; ac < 2; ac++ {
									for pr := 0; pr < 3; pr++ {
										for ui := 0; ui < 2; ui++ {
											if mi.Sign() <= 0 {
												o.Pre[ver][sc][x][y][z][av][ac][pr][ui] = 0
												continue
											}
											me := mul(rat("8.22"), wAV[av], wAC[ac], wPR[sc][pr], wUI[ui])
											var r *big.Rat
											if sc == 1 {
												r = minr(mul(rat("1.08"), add(mi, me)), rat("10"))
											} else {
												r = minr(add(mi, me), rat("10"))
											}
											o.Pre[ver][sc][x][y][z][av][ac][pr][ui] = int8(roundup(ver, r, &amb))
										}
									}
								}
							}
						}
					}
				}
			}
			mu.Lock()
			o.Ambiguous += amb
			mu.Unlock()
		}(x)
	}
	wg.Wait()
	for b := 0; b <= 100; b++ {
		for e := 0; e < 5; e++ {
			for rl := 0; rl < 5; rl++ {
				for rc := 0; rc < 4; rc++ {
					x := mul(big.NewRat(int64(b), 10), wE[e], wRL[rl], wRC[rc])
					a, c := Ceil1(x), Roundup31(x)
					if a != c {
						o.Ambiguous++
					}
					o.Temp[b][e][rl][rc] = int8(c)
				}
			}
		}
	}
	return o
}

// V3Case is a raw v3 vector by code indices (spec order).  Temporal/environmental indices use
// 0 for X.
type V3Case struct {
	Ver                                            int // 0 = 3.0, 1 = 3.1
	AV, AC, PR, UI, S, C, I, A                     int
	E, RL, RC                                      int
	CR, IR, AR, MAV, MAC, MPR, MUI, MS, MC, MI, MA int
}

// BaseT returns the base score in tenths.
func (o *V3) BaseT(c *V3Case) int {
	return int(o.Base[c.Ver][c.S][c.C][c.I][c.A][c.AV][c.AC][c.PR][c.UI])
}

// TempT returns the temporal score in tenths.
func (o *V3) TempT(c *V3Case) int { return int(o.Temp[o.BaseT(c)][c.E][c.RL][c.RC]) }

func eff(mod, base int) int {
	if mod == 0 {
		return base
	}
	return mod - 1
}

// EnvT returns the environmental score in tenths.
func (o *V3) EnvT(c *V3Case) int {
	x, y, z := c.CR*3+eff(c.MC, c.C), c.IR*3+eff(c.MI, c.I), c.AR*3+eff(c.MA, c.A)
	sc := eff(c.MS, c.S)
	pre := o.Pre[c.Ver][sc][x][y][z][eff(c.MAV, c.AV)][eff(c.MAC, c.AC)][eff(c.MPR, c.PR)][eff(c.MUI, c.UI)]
	return int(o.Temp[pre][c.E][c.RL][c.RC])
}

// EnvInfo reports the cap / non-positive flags for a case.
func (o *V3) EnvInfo(c *V3Case) (capBinds, nonPos bool) {
	x, y, z := c.CR*3+eff(c.MC, c.C), c.IR*3+eff(c.MI, c.I), c.AR*3+eff(c.MA, c.A)
	return o.CapBinds[x][y][z], o.NonPos[c.Ver][eff(c.MS, c.S)][x][y][z]
}
