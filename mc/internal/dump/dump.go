// Package dump renders any value — unexported fields and maps included — canonically
// (maps sorted), by reflection only; it never calls methods of the dumped value.
package dump

import (
	"fmt"
	"reflect"
	"sort"
	"strings"
)

// Of returns the canonical rendering of v.
func Of(v any) string {
	var b strings.Builder
	write(reflect.ValueOf(v), &b, 0)
	return b.String()
}

func write(v reflect.Value, b *strings.Builder, depth int) {
	if depth > 12 {
		b.WriteString("…")
		return
	}
	if !v.IsValid() {
		b.WriteString("<invalid>")
		return
	}
	switch v.Kind() {
	case reflect.Ptr:
		if v.IsNil() {
			b.WriteString("nil")
			return
		}
		b.WriteString("&")
		write(v.Elem(), b, depth+1)
	case reflect.Interface:
		if v.IsNil() {
			b.WriteString("nil")
			return
		}
		write(v.Elem(), b, depth+1)
	case reflect.Struct:
		b.WriteString(v.Type().Name() + "{")
		for i := 0; i < v.NumField(); i++ {
			if i > 0 {
				b.WriteString(" ")
			}
			b.WriteString(v.Type().Field(i).Name + ":")
			write(v.Field(i), b, depth+1)
		}
		b.WriteString("}")
	case reflect.Map:
		if v.IsNil() {
			b.WriteString("map(nil)")
			return
		}
		ks := make([]string, 0, v.Len())
		it := v.MapRange()
		for it.Next() {
			var kb, vb strings.Builder
			write(it.Key(), &kb, depth+1)
			write(it.Value(), &vb, depth+1)
			ks = append(ks, kb.String()+"="+vb.String())
		}
		sort.Strings(ks)
		b.WriteString("map[" + strings.Join(ks, ",") + "]")
	case reflect.Slice, reflect.Array:
		if v.Kind() == reflect.Slice && v.IsNil() {
			b.WriteString("slice(nil)")
			return
		}
		b.WriteString("[")
		for i := 0; i < v.Len(); i++ {
			if i > 0 {
				b.WriteString(",")
			}
			write(v.Index(i), b, depth+1)
		}
		b.WriteString("]")
	case reflect.Int, reflect.Int8, reflect.Int16, reflect.Int32, reflect.Int64:
		fmt.Fprintf(b, "%d", v.Int())
	case reflect.Uint, reflect.Uint8, reflect.Uint16, reflect.Uint32, reflect.Uint64, reflect.Uintptr:
		fmt.Fprintf(b, "%d", v.Uint())
	case reflect.Float32, reflect.Float64:
		fmt.Fprintf(b, "%v", v.Float())
	case reflect.String:
		fmt.Fprintf(b, "%q", v.String())
	case reflect.Bool:
		fmt.Fprintf(b, "%v", v.Bool())
	case reflect.Func, reflect.Chan, reflect.UnsafePointer:
		if v.IsNil() {
			b.WriteString("nil")
		} else {
			b.WriteString("<" + v.Kind().String() + ">")
		}
	default:
		fmt.Fprintf(b, "?%s", v.Kind())
	}
}

// OfValue renders a reflect.Value (which may have been reached through unexported fields).
func OfValue(v reflect.Value) string {
	var b strings.Builder
	write(v, &b, 0)
	return b.String()
}
