// Package spec is a second, independent transcription of the FIRST CVSS v2 / v3.0 / v3.1
// specification tables (DESIGN.md §4.1): metric names, value codes, numeric weights (as decimal
// strings, never floats) and the canonical order.  It deliberately contains no reference to the
// library's own code or weight maps: the only link to the library is the hand-written list of the
// library's *enum constants* per code in package lib.
package spec

// Code is one value code of a metric with its specification weight.
type Code struct {
	Code string
	W    string // weight (for v3 PR/MPR: weight under unchanged scope)
	WC   string // v3 PR/MPR only: weight under changed scope
	ND   bool   // this is the "Not Defined" code (X / ND)
}

// Metric is one metric of one CVSS version.
type Metric struct {
	Ver   int    // 2 or 3
	Level int    // 0 base, 1 temporal, 2 environmental
	Name  string // vector name, e.g. "MAV"
	Codes []Code // specification order (as printed in the spec's table)
	Base  string // v3 Modified metrics: the name of the base metric it falls back to
}

func c(code, w string) Code      { return Code{Code: code, W: w} }
func nd(code, w string) Code     { return Code{Code: code, W: w, ND: true} }
func pr(code, u, ch string) Code { return Code{Code: code, W: u, WC: ch} }

// V3 lists the 22 CVSS v3 metrics in canonical vector order.
var V3 = []Metric{
	{3, 0, "AV", []Code{c("N", "0.85"), c("A", "0.62"), c("L", "0.55"), c("P", "0.2")}, ""},
	{3, 0, "AC", []Code{c("L", "0.77"), c("H", "0.44")}, ""},
	{3, 0, "PR", []Code{pr("N", "0.85", "0.85"), pr("L", "0.62", "0.68"), pr("H", "0.27", "0.5")}, ""},
	{3, 0, "UI", []Code{c("N", "0.85"), c("R", "0.62")}, ""},
	{3, 0, "S", []Code{c("U", ""), c("C", "")}, ""},
	{3, 0, "C", []Code{c("H", "0.56"), c("L", "0.22"), c("N", "0")}, ""},
	{3, 0, "I", []Code{c("H", "0.56"), c("L", "0.22"), c("N", "0")}, ""},
	{3, 0, "A", []Code{c("H", "0.56"), c("L", "0.22"), c("N", "0")}, ""},
	{3, 1, "E", []Code{nd("X", "1"), c("H", "1"), c("F", "0.97"), c("P", "0.94"), c("U", "0.91")}, ""},
	{3, 1, "RL", []Code{nd("X", "1"), c("U", "1"), c("W", "0.97"), c("T", "0.96"), c("O", "0.95")}, ""},
	{3, 1, "RC", []Code{nd("X", "1"), c("C", "1"), c("R", "0.96"), c("U", "0.92")}, ""},
	{3, 2, "CR", []Code{nd("X", "1"), c("H", "1.5"), c("M", "1"), c("L", "0.5")}, ""},
	{3, 2, "IR", []Code{nd("X", "1"), c("H", "1.5"), c("M", "1"), c("L", "0.5")}, ""},
	{3, 2, "AR", []Code{nd("X", "1"), c("H", "1.5"), c("M", "1"), c("L", "0.5")}, ""},
	{3, 2, "MAV", []Code{nd("X", ""), c("N", "0.85"), c("A", "0.62"), c("L", "0.55"), c("P", "0.2")}, "AV"},
	{3, 2, "MAC", []Code{nd("X", ""), c("L", "0.77"), c("H", "0.44")}, "AC"},
	{3, 2, "MPR", []Code{nd("X", ""), pr("N", "0.85", "0.85"), pr("L", "0.62", "0.68"), pr("H", "0.27", "0.5")}, "PR"},
	{3, 2, "MUI", []Code{nd("X", ""), c("N", "0.85"), c("R", "0.62")}, "UI"},
	{3, 2, "MS", []Code{nd("X", ""), c("U", ""), c("C", "")}, "S"},
	{3, 2, "MC", []Code{nd("X", ""), c("H", "0.56"), c("L", "0.22"), c("N", "0")}, "C"},
	{3, 2, "MI", []Code{nd("X", ""), c("H", "0.56"), c("L", "0.22"), c("N", "0")}, "I"},
	{3, 2, "MA", []Code{nd("X", ""), c("H", "0.56"), c("L", "0.22"), c("N", "0")}, "A"},
}

// V2 lists the 14 CVSS v2 metrics in canonical vector order.
var V2 = []Metric{
	{2, 0, "AV", []Code{c("L", "0.395"), c("A", "0.646"), c("N", "1.0")}, ""},
	{2, 0, "AC", []Code{c("H", "0.35"), c("M", "0.61"), c("L", "0.71")}, ""},
	{2, 0, "Au", []Code{c("M", "0.45"), c("S", "0.56"), c("N", "0.704")}, ""},
	{2, 0, "C", []Code{c("N", "0"), c("P", "0.275"), c("C", "0.660")}, ""},
	{2, 0, "I", []Code{c("N", "0"), c("P", "0.275"), c("C", "0.660")}, ""},
	{2, 0, "A", []Code{c("N", "0"), c("P", "0.275"), c("C", "0.660")}, ""},
	{2, 1, "E", []Code{c("U", "0.85"), c("POC", "0.9"), c("F", "0.95"), c("H", "1.0"), nd("ND", "1.0")}, ""},
	{2, 1, "RL", []Code{c("OF", "0.87"), c("TF", "0.90"), c("W", "0.95"), c("U", "1.0"), nd("ND", "1.0")}, ""},
	{2, 1, "RC", []Code{c("UC", "0.90"), c("UR", "0.95"), c("C", "1.0"), nd("ND", "1.0")}, ""},
	{2, 2, "CDP", []Code{c("N", "0"), c("L", "0.1"), c("LM", "0.3"), c("MH", "0.4"), c("H", "0.5"), nd("ND", "0")}, ""},
	{2, 2, "TD", []Code{c("N", "0"), c("L", "0.25"), c("M", "0.75"), c("H", "1.0"), nd("ND", "1.0")}, ""},
	{2, 2, "CR", []Code{c("L", "0.5"), c("M", "1.0"), c("H", "1.51"), nd("ND", "1.0")}, ""},
	{2, 2, "IR", []Code{c("L", "0.5"), c("M", "1.0"), c("H", "1.51"), nd("ND", "1.0")}, ""},
	{2, 2, "AR", []Code{c("L", "0.5"), c("M", "1.0"), c("H", "1.51"), nd("ND", "1.0")}, ""},
}

// Metrics returns the metric list of a version.
func Metrics(ver int) []Metric {
	if ver == 2 {
		return V2
	}
	return V3
}

var (
	upTo [4][3][]Metric
	at   [4][3][]Metric
)

func init() {
	for _, ver := range []int{2, 3} {
		for level := 0; level < 3; level++ {
			for _, m := range Metrics(ver) {
				if m.Level <= level {
					upTo[ver][level] = append(upTo[ver][level], m)
				}
				if m.Level == level {
					at[ver][level] = append(at[ver][level], m)
				}
			}
		}
	}
}

// UpTo returns the metrics of a version up to and including level (shared slice: do not modify).
func UpTo(ver, level int) []Metric { return upTo[ver][level] }

// At returns the metrics of exactly one level (shared slice: do not modify).
func At(ver, level int) []Metric { return at[ver][level] }

// Find returns the metric with the given name (nil if none).
func Find(ver int, name string) *Metric {
	ms := Metrics(ver)
	for i := range ms {
		if ms[i].Name == name {
			return &ms[i]
		}
	}
	return nil
}

// Has reports whether code is a specification code of m.
func (m *Metric) Has(code string) bool {
	for _, c := range m.Codes {
		if c.Code == code {
			return true
		}
	}
	return false
}

// NDCode returns the Not-Defined code of the metric ("" if it has none).
func (m *Metric) NDCode() string {
	for _, c := range m.Codes {
		if c.ND {
			return c.Code
		}
	}
	return ""
}

// V3Versions are the supported version labels.
var V3Versions = []string{"3.0", "3.1"}

// LevelNames for messages.
var LevelNames = []string{"base", "temporal", "environmental"}

// V3Bands / V2Bands: severity name by score in tenths.
func V3Band(t int) string {
	switch {
	case t <= 0:
		return "None"
	case t <= 39:
		return "Low"
	case t <= 69:
		return "Medium"
	case t <= 89:
		return "High"
	}
	return "Critical"
}

func V2Band(t int) string {
	switch {
	case t <= 39:
		return "Low"
	case t <= 69:
		return "Medium"
	}
	return "High"
}
