//go:build verifsched

// sched: the SCHED engine's explorer (DESIGN.md §5.4).  Built against the instrumented overlay
// of go-cvss.  Stateless depth-first enumeration of all schedules of a scenario up to a
// preemption bound, on the real code.
//
//	sched run <tier>                 parent: shards scenarios over worker processes, writes evidence
//	sched worker <tier> <i> <n>      worker: explores scenarios with index%n==i, prints JSON lines
//	sched replay <file>              re-executes the schedule of a violation artefact
package main

import (
	"bufio"
	"bytes"
	"encoding/json"
	"fmt"
	"hash/fnv"
	"os"
	"os/exec"
	"reflect"
	"runtime"
	"sort"
	"strconv"
	"strings"
	"sync"
	"time"
	"unsafe"

	"cvssmc/internal/dump"
	"cvssmc/internal/ev"
	"cvssmc/internal/scen"

	_ "github.com/goark/go-cvss/cvsserr"
	_ "github.com/goark/go-cvss/v2/metric"
	_ "github.com/goark/go-cvss/v3/metric"
	_ "github.com/goark/go-cvss/v3/report"
	_ "github.com/goark/go-cvss/v3/report/names"
	_ "github.com/goark/go-cvss/v3/version"
	"github.com/goark/go-cvss/verifreg"
	sched "github.com/goark/go-cvss/verifsched"
)

// globalSetsSorted: the package-level variables of every library package linked into this binary
// (registered by the generated verif_globals_gen.go files), in package-path order.
func globalSetsSorted() []map[string]any {
	all := verifreg.All()
	ps := make([]string, 0, len(all))
	for p := range all {
		ps = append(ps, p)
	}
	sort.Strings(ps)
	sets := make([]map[string]any, 0, len(ps))
	for _, p := range ps {
		sets = append(sets, all[p])
	}
	return sets
}

func globalsHash() uint64 {
	h := fnv.New64a()
	sets := globalSetsSorted()
	for _, m := range sets {
		ks := make([]string, 0, len(m))
		for k := range m {
			ks = append(ks, k)
		}
		sort.Strings(ks)
		for _, k := range ks {
			h.Write([]byte(k))
			h.Write([]byte(dump.Of(m[k])))
		}
	}
	return h.Sum64()
}

// ---------------------------------------------------------------------------------------------
// package-level state is reset before every execution: a stateless search assumes that every
// execution starts from the same initial state, and a lazily built table or a cache would
// otherwise be "cold" only in the first execution of the process (and already warm after the
// sequential reference run).

type globalSnap struct {
	target reflect.Value // the variable (settable, reached through its pointer)
	value  reflect.Value // deep copy of its value at process start
}

var initialGlobals []globalSnap

// deepClone copies a value completely: maps, slices, arrays, structs (unexported fields included,
// through unsafe), and what pointers and interfaces refer to — preserving aliasing inside one value
// (memo) — so that a cache, pool or table held BEHIND a package-level pointer is cold again after
// restoreGlobals, not only one held by value.  Values of types defined outside the library (and
// outside bytes/strings/container) are shared, not cloned: a *template.Template or a *regexp.Regexp
// is not library state; functions and channels are shared as well.
func cloneable(t reflect.Type) bool {
	p := t.PkgPath()
	return p == "" || strings.HasPrefix(p, "github.com/goark/go-cvss") || p == "bytes" || p == "strings" || strings.HasPrefix(p, "container/")
}

func access(v reflect.Value) reflect.Value {
	if v.CanAddr() && !v.CanSet() {
		return reflect.NewAt(v.Type(), unsafe.Pointer(v.UnsafeAddr())).Elem()
	}
	return v
}

func cloneInto(dst, src reflect.Value, memo map[unsafe.Pointer]reflect.Value) {
	dst, src = access(dst), access(src)
	switch src.Kind() {
	case reflect.Struct:
		if !cloneable(src.Type()) {
			dst.Set(src)
			return
		}
		if !src.CanAddr() {
			tmp := reflect.New(src.Type()).Elem()
			tmp.Set(src)
			src = tmp
		}
		for i := 0; i < src.NumField(); i++ {
			cloneInto(dst.Field(i), src.Field(i), memo)
		}
	case reflect.Array:
		if !src.CanAddr() {
			tmp := reflect.New(src.Type()).Elem()
			tmp.Set(src)
			src = tmp
		}
		for i := 0; i < src.Len(); i++ {
			cloneInto(dst.Index(i), src.Index(i), memo)
		}
	case reflect.Slice:
		if src.IsNil() {
			dst.Set(src)
			return
		}
		n := reflect.MakeSlice(src.Type(), src.Len(), src.Cap())
		for i := 0; i < src.Len(); i++ {
			cloneInto(n.Index(i), src.Index(i), memo)
		}
		dst.Set(n)
	case reflect.Map:
		if src.IsNil() {
			dst.Set(src)
			return
		}
		if m, ok := memo[src.UnsafePointer()]; ok {
			dst.Set(m)
			return
		}
		n := reflect.MakeMapWithSize(src.Type(), src.Len())
		memo[src.UnsafePointer()] = n
		it := src.MapRange()
		for it.Next() {
			kv := reflect.New(src.Type().Key()).Elem()
			cloneInto(kv, it.Key(), memo)
			vv := reflect.New(src.Type().Elem()).Elem()
			cloneInto(vv, it.Value(), memo)
			n.SetMapIndex(kv, vv)
		}
		dst.Set(n)
	case reflect.Ptr:
		if src.IsNil() || !cloneable(src.Type().Elem()) {
			dst.Set(src)
			return
		}
		if m, ok := memo[src.UnsafePointer()]; ok {
			dst.Set(m)
			return
		}
		n := reflect.New(src.Type().Elem())
		memo[src.UnsafePointer()] = n
		cloneInto(n.Elem(), src.Elem(), memo)
		dst.Set(n)
	case reflect.Interface:
		if src.IsNil() {
			dst.Set(src)
			return
		}
		e := src.Elem()
		n := reflect.New(e.Type()).Elem()
		cloneInto(n, e, memo)
		dst.Set(n)
	default:
		dst.Set(src) // scalars, strings, funcs, channels, unsafe pointers
	}
}

func deepCopy(v reflect.Value) reflect.Value {
	n := reflect.New(v.Type()).Elem()
	cloneInto(n, v, map[unsafe.Pointer]reflect.Value{})
	return n
}

func snapshotGlobals() {
	sets := globalSetsSorted()
	for _, m := range sets {
		ks := make([]string, 0, len(m))
		for k := range m {
			ks = append(ks, k)
		}
		sort.Strings(ks)
		for _, k := range ks {
			t := reflect.ValueOf(m[k]).Elem()
			if !t.CanSet() {
				continue
			}
			initialGlobals = append(initialGlobals, globalSnap{t, safeClone(t)})
		}
	}
}

// safeClone: a value the cloner cannot handle is shared as it is (the behaviour before round 6)
func safeClone(v reflect.Value) (c reflect.Value) {
	defer func() {
		if recover() != nil {
			c = reflect.New(v.Type()).Elem()
			c.Set(v)
		}
	}()
	return deepCopy(v)
}

func restoreGlobals() {
	for _, g := range initialGlobals {
		g.target.Set(safeClone(g.value))
	}
}

// ---------------------------------------------------------------------------------------------
// state-directed scenarios: which package-level location does each vector write?

func leafHashes() map[string]uint64 {
	out := map[string]uint64{}
	hash := func(v reflect.Value) uint64 {
		h := fnv.New64a()
		h.Write([]byte(dump.OfValue(v)))
		return h.Sum64()
	}
	var walk func(path string, v reflect.Value, depth int)
	walk = func(path string, v reflect.Value, depth int) {
		switch v.Kind() {
		case reflect.Ptr, reflect.Interface:
			if v.IsNil() || depth > 6 {
				out[path] = hash(v)
				return
			}
			walk(path, v.Elem(), depth+1)
		case reflect.Struct:
			if depth > 4 || v.NumField() == 0 {
				out[path] = hash(v)
				return
			}
			for i := 0; i < v.NumField(); i++ {
				walk(path+"."+v.Type().Field(i).Name, v.Field(i), depth+1)
			}
		case reflect.Array, reflect.Slice:
			if v.Len() == 0 || v.Len() > 1<<17 {
				out[path] = hash(v)
				return
			}
			for i := 0; i < v.Len(); i++ {
				out[fmt.Sprintf("%s[%d]", path, i)] = hash(v.Index(i))
			}
			out[path+".len"] = uint64(v.Len())
		case reflect.Map:
			it := v.MapRange()
			for it.Next() {
				out[path+"["+dump.OfValue(it.Key())+"]"] = hash(it.Value())
			}
			out[path+".len"] = uint64(v.Len())
		default:
			out[path] = hash(v)
		}
	}
	all := verifreg.All()
	for pkg, m := range all {
		for k, p := range m {
			walk(pkg+"."+k, reflect.ValueOf(p).Elem(), 0)
		}
	}
	return out
}

type discovery struct {
	Candidates       int                   `json:"candidate_vectors_run_from_a_cold_start"`
	Writers          int                   `json:"candidates_that_changed_package_level_state"`
	Locations        int                   `json:"package_level_locations_written_by_some_but_not_most_candidates"`
	SharedLocations  int                   `json:"locations_written_by_two_or_more_different_vectors"`
	Groups           []scen.CollisionGroup `json:"groups"`
	StoppedEarly     []string              `json:"stopped_early,omitempty"`
	Seconds          float64               `json:"seconds"`
	BudgetHit        bool                  `json:"budget_hit,omitempty"`
	MostWrittenPaths []string              `json:"locations_written_by_most_candidates,omitempty"`
}

// discover runs every candidate vector from a cold start and records which package-level
// locations changed; vectors that write one common location (which most other vectors do not
// write) form a collision group.
func discover() discovery {
	t0 := time.Now()
	var d discovery
	restoreGlobals()
	base := leafHashes()
	for _, ver := range []int{3, 2} {
		cands := scen.CollisionCandidates(ver)
		writers := map[string][]int{}
		ran, wrote := 0, 0
		for ci, c := range cands {
			if time.Since(t0) > 150*time.Second {
				d.BudgetHit = true
				break
			}
			if ran == 400 && wrote == 0 {
				d.StoppedEarly = append(d.StoppedEarly, fmt.Sprintf("CVSS v%d: none of the first 400 candidates changed any package-level state; the remaining %d were not run", ver, len(cands)-ran))
				break
			}
			restoreGlobals()
			func() {
				defer func() { recover() }()
				scen.CollisionOp(ver, c)
			}()
			ran++
			now := leafHashes()
			changed := false
			for p, h := range now {
				if bh, ok := base[p]; !ok || bh != h {
					writers[p] = append(writers[p], ci)
					changed = true
				}
			}
			for p := range base {
				if _, ok := now[p]; !ok {
					writers[p] = append(writers[p], ci)
					changed = true
				}
			}
			if changed {
				wrote++
			}
		}
		d.Candidates += ran
		d.Writers += wrote
		var paths []string
		for p, w := range writers {
			if strings.HasSuffix(p, ".len") {
				continue
			}
			if len(w)*2 > ran {
				if len(d.MostWrittenPaths) < 6 {
					d.MostWrittenPaths = append(d.MostWrittenPaths, p)
				}
				continue
			}
			d.Locations++
			if len(w) >= 2 {
				d.SharedLocations++
				paths = append(paths, p)
			}
		}
		// groups: most writers first; at most one group per top-level variable, three per version
		sort.Slice(paths, func(i, j int) bool {
			if len(writers[paths[i]]) != len(writers[paths[j]]) {
				return len(writers[paths[i]]) > len(writers[paths[j]])
			}
			return paths[i] < paths[j]
		})
		seenVar := map[string]int{}
		n := 0
		for _, p := range paths {
			v := p
			if i := strings.IndexAny(p, "["); i > 0 {
				v = p[:i]
			}
			if seenVar[v] >= 2 || n >= 3 {
				continue
			}
			seenVar[v]++
			n++
			g := scen.CollisionGroup{Ver: ver, Path: p}
			// three vectors with pairwise different base metrics and pairwise different results (a
			// mix-up between two vectors that score alike would not be observable)
			seenBase, seenRes := map[string]bool{}, map[string]bool{}
			for _, ci := range writers[p] {
				parts := strings.Split(cands[ci], "/")
				nb := 6
				if ver == 3 {
					nb = 9
				}
				if len(parts) < nb {
					continue
				}
				bk := strings.Join(parts[:nb], "/")
				res := scen.CollisionOp(ver, cands[ci])
				if i := strings.LastIndex(res, " "); i > 0 {
					res = res[:i] // without the encoding
				}
				if seenBase[bk] || seenRes[res] || len(g.Vectors) >= 3 {
					continue
				}
				seenBase[bk], seenRes[res] = true, true
				g.Vectors = append(g.Vectors, cands[ci])
			}
			if len(g.Vectors) < 2 {
				seenVar[v]--
				n--
				continue
			}
			// which single query on an already decoded object writes the location?
			for _, q := range scen.CollisionQueries {
				o := scen.DecodeFor(ver, g.Vectors[0])
				if o == nil {
					break
				}
				restoreGlobals()
				func() {
					defer func() { recover() }()
					scen.QueryOn(o, q)
				}()
				now := leafHashes()
				if bh, ok := base[p]; now[p] != bh || !ok {
					if _, has := now[p]; has || ok {
						g.Query = q
						break
					}
				}
			}
			d.Groups = append(d.Groups, g)
		}
	}
	restoreGlobals()
	sort.Strings(d.MostWrittenPaths)
	d.Seconds = time.Since(t0).Seconds()
	return d
}

func loadCollisionsFromEnv() {
	if js := os.Getenv("VERIF_SCHED_COLLISIONS"); js != "" {
		var gs []scen.CollisionGroup
		if json.Unmarshal([]byte(js), &gs) == nil {
			scen.LoadCollisions(gs)
		}
	}
}

// result of exploring one scenario at one bound
type scResult struct {
	Scenario        string         `json:"scenario"`
	Threads         int            `json:"threads"`
	Bound           int            `json:"bound"`
	Executions      int64          `json:"executions"`
	MaxPoints       int            `json:"max_points"`
	MaxSteps        int            `json:"max_steps"`
	Outcomes        int            `json:"distinct_outcomes"`
	Traces          int            `json:"distinct_traces"`
	Preempted       []bool         `json:"threads_preempted_mid_operation"`
	Complete        bool           `json:"complete"`
	Violations      []ev.Violation `json:"violations,omitempty"`
	Infra           []string       `json:"infra,omitempty"`
	Seconds         float64        `json:"seconds"`
	PrunedStates    int64          `json:"pruned_states,omitempty"`
	PerBound        []int64        `json:"schedules_per_bound"`
	TotalSteps      int64          `json:"total_steps"`
	Unbounded       int64          `json:"unbounded_schedules,omitempty"`
	UnboundedDone   bool           `json:"unbounded_complete,omitempty"`
	UnboundedStates int64          `json:"unbounded_states,omitempty"`
	DirtyPoints     int64          `json:"points_after_observed_shared_state_change,omitempty"`
	Aborted         int            `json:"bound_aborted_by_deadline,omitempty"`
	GlobalsChanged  bool           `json:"globals_changed,omitempty"`
}

type explorer struct {
	sc           scen.Scenario
	bound        int // -1: unbounded with state pruning
	deadline     time.Time
	want         []string
	wantObs      string
	res          *scResult
	outcomes     map[string]bool
	traces       map[uint64]bool
	visited      map[uint64]bool
	stop         bool
	probe        []string // results of the post-probe of the last execution
	curEnv       *scen.Env
	fp0          uint64
	visitedSteps map[[4]int32]bool
}

// runOnce executes the scenario under the schedule prefix.
func (e *explorer) runOnce(prefix []int) (*sched.Exec, []string, string) {
	restoreGlobals()
	env, bodies := e.sc.Setup()
	e.curEnv = env
	results := make([]string, len(bodies))
	fs := make([]func(), len(bodies))
	for i := range bodies {
		i := i
		fs[i] = func() { results[i] = bodies[i]() }
	}
	var x *sched.Exec
	done := make(chan struct{})
	go func() { x = sched.Run(prefix, fs); close(done) }()
	select {
	case <-done:
	case <-time.After(stuckAfter):
		// a thread blocks on something the scheduler does not control (a channel, a real lock):
		// this process cannot explore the scenario; its state is unusable from here on
		reportStuck(e.sc.Name)
	}
	obs := ""
	e.probe = nil
	if !x.Deadlock && !x.Horizon {
		obs = env.Observe()
		// post-probe: after the concurrent phase the same operations, run once more one after the
		// other, must still give the sequential results (an interleaving may leave shared state
		// behind that only a later operation exposes)
		if x.Switches > 0 {
			for i := range bodies {
				i := i
				e.probe = append(e.probe, func() (res string) {
					defer func() {
						if p := recover(); p != nil {
							res = fmt.Sprintf("PANIC: %v", p)
						}
					}()
					return bodies[i]()
				}())
			}
		}
	}
	return x, results, obs
}

func (e *explorer) violation(kind string, x *sched.Exec, observed, expected string) {
	if len(e.res.Violations) >= 3 {
		e.stop = true
		return
	}
	e.res.Violations = append(e.res.Violations, ev.Violation{Kind: kind,
		Case:     withCollisions(e.sc, map[string]any{"scenario": e.sc.Name, "ops": e.sc.Ops, "shared": e.sc.Shared, "schedule": x.ChoiceList(len(x.Points)), "preemption_bound": e.bound, "context_switches": x.Switches}),
		Observed: observed, Expected: expected})
}

// withCollisions: a state-directed scenario only exists relative to the discovered groups; the
// artefact carries them so that the replay can rebuild the scenario.
func withCollisions(sc scen.Scenario, c map[string]any) map[string]any {
	if sc.IsCollision() {
		c["collision_groups_json"] = os.Getenv("VERIF_SCHED_COLLISIONS")
	}
	return c
}

func preemptionsBefore(x *sched.Exec, i int) int {
	n := 0
	for j := 0; j < i; j++ {
		if x.Points[j].RunningEnabled && x.Points[j].Chosen != 0 {
			n++
		}
	}
	return n
}

func (e *explorer) check(x *sched.Exec, results []string, obs string, prefix []int) {
	e.res.Executions++
	e.res.TotalSteps += int64(x.Steps)
	if len(x.Points) > e.res.MaxPoints {
		e.res.MaxPoints = len(x.Points)
	}
	if x.Steps > e.res.MaxSteps {
		e.res.MaxSteps = x.Steps
	}
	if x.Diverged != "" {
		e.res.Infra = append(e.res.Infra, fmt.Sprintf("%s: replay of prefix %v diverged: %s", e.sc.Name, prefix, x.Diverged))
		e.stop = true
		return
	}
	if x.Horizon {
		e.res.Infra = append(e.res.Infra, fmt.Sprintf("%s: horizon of %d scheduling points reached under schedule %v", e.sc.Name, sched.Horizon, x.ChoiceList(len(x.Points))))
		e.stop = true
		return
	}
	e.traces[x.Trace] = true
	if x.Deadlock {
		e.violation("deadlock", x, "no enabled thread while some thread is unfinished", "every operation returns")
		return
	}
	for i, p := range x.Panics {
		if p != "" {
			e.violation("panic", x, fmt.Sprintf("thread %d (%s) panicked: %s", i, scen.Ops[e.sc.Ops[i]].Name, p), "no panic")
			return
		}
	}
	out := strings.Join(results, " \x1f ")
	e.outcomes[out] = true
	for i := range results {
		if results[i] != e.want[i] {
			e.violation("result-differs-from-sequential", x, fmt.Sprintf("thread %d (%s): %s", i, scen.Ops[e.sc.Ops[i]].Name, results[i]), e.want[i])
			return
		}
	}
	if obs != e.wantObs {
		e.violation("shared-object-changed", x, obs, e.wantObs)
	}
	for i := range e.probe {
		if e.probe[i] != e.want[i] {
			e.violation("later-operation-differs-after-interleaving", x, fmt.Sprintf("%s repeated sequentially after the concurrent phase: %s", scen.Ops[e.sc.Ops[i]].Name, e.probe[i]), e.want[i])
			return
		}
	}
	for i, p := range x.Points {
		if p.RunningEnabled && p.Chosen != 0 && i > 0 {
			// thread that was running at point i is the one chosen at the previous point
			prev := int(x.Points[i-1].Thread)
			if prev < len(e.res.Preempted) {
				e.res.Preempted[prev] = true
			}
		}
	}
}

// threadOrders returns every order of n threads except the identity.
func threadOrders(n int) [][]int {
	var out [][]int
	idx := make([]int, n)
	for i := range idx {
		idx[i] = i
	}
	var rec func(k int)
	rec = func(k int) {
		if k == n {
			id := true
			for i, v := range idx {
				if i != v {
					id = false
				}
			}
			if !id {
				out = append(out, append([]int{}, idx...))
			}
			return
		}
		for i := k; i < n; i++ {
			idx[k], idx[i] = idx[i], idx[k]
			rec(k + 1)
			idx[k], idx[i] = idx[i], idx[k]
		}
	}
	rec(0)
	return out
}

// fingerprint of everything threads share: the scenario's objects and every package-level variable
func sharedFingerprint(env *scen.Env) uint64 {
	h := fnv.New64a()
	h.Write([]byte(env.Dump()))
	var b [8]byte
	g := globalsHash()
	for i := range b {
		b[i] = byte(g >> (8 * uint(i)))
	}
	h.Write(b[:])
	return h.Sum64()
}

// exploreUnbounded: depth-first search over ALL schedules with state pruning (DESIGN.md 5.4).
// While no context switch has observed shared state different from the initial one, every
// thread's local state is a function of its own step count, so (steps per thread) identifies the
// state and a state seen before is not expanded again.  As soon as a switch observes a change,
// nothing is pruned below it any more (the key would have to contain the history).
func (e *explorer) exploreUnbounded(prefix []int, dirty bool) {
	if e.stop {
		return
	}
	if time.Now().After(e.deadline) {
		e.res.Complete = false
		e.stop = true
		return
	}
	sched.OnSwitchFrom = len(prefix) - 1
	sched.OnSwitch = func() uint64 { return sharedFingerprint(e.curEnv) }
	x, results, obs := e.runOnce(prefix)
	sched.OnSwitch = nil
	e.check(x, results, obs, prefix)
	if e.stop {
		return
	}
	sw := 0
	for i := len(prefix); i < len(x.Points); i++ {
		for sw < len(x.SwitchAt) && x.SwitchAt[sw] < i {
			if x.SwitchStates[sw] != e.fp0 {
				dirty = true
			}
			sw++
		}
		p := x.Points[i]
		if !dirty {
			key := p.Steps
			if e.visitedSteps[key] {
				e.res.PrunedStates++
				return // everything below was, or will be, explored from the first visit
			}
			e.visitedSteps[key] = true
		} else {
			e.res.DirtyPoints++
		}
		for alt := 1; alt < int(p.Enabled); alt++ {
			e.exploreUnbounded(append(x.ChoiceList(i), alt), dirty)
			if e.stop {
				return
			}
		}
	}
}

// explore: iterative context bounding DFS.
func (e *explorer) explore(prefix []int) {
	if e.stop {
		return
	}
	if time.Now().After(e.deadline) {
		e.res.Complete = false
		e.stop = true
		return
	}
	x, results, obs := e.runOnce(prefix)
	e.check(x, results, obs, prefix)
	if e.stop {
		return
	}
	for i := len(prefix); i < len(x.Points); i++ {
		p := x.Points[i]
		if e.bound >= 0 {
			cost := preemptionsBefore(x, i)
			if p.RunningEnabled {
				cost++
			}
			if cost > e.bound {
				continue
			}
		}
		for alt := 1; alt < int(p.Enabled); alt++ {
			np := append(x.ChoiceList(i), alt)
			e.explore(np)
			if e.stop {
				return
			}
		}
	}
}

// exploreScenario explores the scenario with iterative context bounding: bound 0, 1, … up to
// maxBound, each to completion, until the budget is used up.  In the quick tier bound 2 is
// attempted only when the executions are short (pointLimit).
func exploreScenario(sc scen.Scenario, maxBound int, pointLimit int, budget time.Duration) *scResult {
	t0 := time.Now()
	res := &scResult{Scenario: sc.Name, Threads: len(sc.Ops), Bound: -1, Complete: true, Preempted: make([]bool, len(sc.Ops))}
	// sequential reference: the same bodies, one after the other, outside the scheduler
	restoreGlobals()
	g0 := globalsHash()
	env, bodies := sc.Setup()
	var want []string
	for _, b := range bodies {
		want = append(want, b())
	}
	wantObs := env.Observe()
	// "equals sequential use" presupposes that sequential use has one answer: the same bodies in
	// every other thread order, each from a cold start, must give the same results
	for _, perm := range threadOrders(len(bodies)) {
		restoreGlobals()
		_, b2 := sc.Setup()
		got := make([]string, len(b2))
		for _, ti := range perm {
			got[ti] = b2[ti]()
		}
		for ti := range got {
			if got[ti] != want[ti] && len(res.Violations) < 3 {
				res.Violations = append(res.Violations, ev.Violation{Kind: "sequential-order-dependence",
					Case:     map[string]any{"scenario": sc.Name, "ops": sc.Ops, "shared": sc.Shared, "sequential_thread_order": perm, "note": "no concurrency involved: the operations were run one after the other, from a cold start, in this order"},
					Observed: fmt.Sprintf("thread %d (%s): %s", ti, scen.Ops[sc.Ops[ti]].Name, got[ti]), Expected: want[ti] + "  (what the same operation returns when the threads run in order 0,1,…)"})
			}
		}
	}
	mk := func(bound int) *explorer {
		return &explorer{sc: sc, bound: bound, deadline: t0.Add(budget), want: want, wantObs: wantObs, res: res, outcomes: map[string]bool{}, traces: map[uint64]bool{}}
	}
	// determinism obligations: the empty schedule twice gives identical traces and results
	e := mk(0)
	x1, r1, _ := e.runOnce(nil)
	x2, r2, _ := e.runOnce(nil)
	if x1.Trace != x2.Trace || strings.Join(r1, "|") != strings.Join(r2, "|") || len(x1.Points) != len(x2.Points) {
		res.Infra = append(res.Infra, fmt.Sprintf("%s: two runs of the empty schedule differ (trace %x/%x, points %d/%d): uncontrolled nondeterminism", sc.Name, x1.Trace, x2.Trace, len(x1.Points), len(x2.Points)))
		res.Seconds = time.Since(t0).Seconds()
		return res
	}
	for b := 0; b <= maxBound; b++ {
		if b >= 2 && pointLimit > 0 && res.MaxPoints > pointLimit {
			break
		}
		e = mk(b)
		before := res.Executions
		res.Executions = 0
		e.explore(nil)
		if e.stop && len(res.Violations) == 0 && len(res.Infra) == 0 {
			// budget exhausted inside this bound: report the previous bound as completed
			res.Complete = b > maxBound
			res.Executions += before
			res.Aborted = b
			break
		}
		res.Bound = b
		res.Outcomes, res.Traces = len(e.outcomes), len(e.traces)
		res.PerBound = append(res.PerBound, res.Executions)
		if len(res.Violations) > 0 || len(res.Infra) > 0 {
			break
		}
	}
	if unboundedLimit > 0 && res.MaxPoints <= unboundedLimit && len(res.Violations) == 0 && len(res.Infra) == 0 {
		e = mk(-1)
		e.deadline = time.Now().Add(unboundedBudget)
		e.visitedSteps = map[[4]int32]bool{}
		restoreGlobals()
		env0, _ := sc.Setup()
		e.fp0 = sharedFingerprint(env0)
		before := res.Executions
		res.Executions = 0
		wasComplete := res.Complete
		res.Complete = true
		e.exploreUnbounded(nil, false)
		res.Unbounded = res.Executions
		res.UnboundedDone = res.Complete && !e.stop
		res.UnboundedStates = int64(len(e.visitedSteps))
		res.Executions += before
		res.Complete = wasComplete
	}
	res.GlobalsChanged = globalsHash() != g0
	res.Seconds = time.Since(t0).Seconds()
	return res
}

// stuckAfter: an execution has a few thousand scheduling points and takes milliseconds
const stuckAfter = 60 * time.Second

// reportStuck ends the worker: results so far are flushed by the caller's defer chain being
// bypassed deliberately — the parent re-spawns a worker that skips this scenario.
var stuckOut *bufio.Writer

func reportStuck(name string) {
	if stuckOut != nil {
		b, _ := json.Marshal(map[string]any{"stuck": name})
		stuckOut.Write(b)
		stuckOut.WriteByte('\n')
		stuckOut.Flush()
	}
	os.Exit(3)
}

// unbounded pass: only for scenarios whose executions have at most this many scheduling points
var (
	unboundedLimit  = 0
	unboundedBudget = 10 * time.Minute
)

// ---------------------------------------------------------------------------------------------

type job struct {
	sc         scen.Scenario
	bound      int
	pointLimit int // attempt bound >= 2 only if executions have at most this many points (0: always)
	budget     time.Duration
}

func jobsFor(tier string) []job {
	var js []job
	all := append(append(append(scen.Pairs(), scen.Triples()...), scen.QueryTriples()...), append(append(scen.Bulk(), scen.Tiny()...), scen.Twins()...)...)
	for _, sc := range all {
		if tier == "thorough" {
			// thorough: bound 2 everywhere, within 8 minutes per scenario (a budget that is hit is
			// reported as the bound completed, never as a violation)
			js = append(js, job{sc, 2, 0, 8 * time.Minute})
		} else {
			// quick: bound 2 for two threads on one shared object or through the same entry point
			// (short executions only, see pointLimit); different operations on distinct objects meet
			// only in package-level state and get bound 1 here, bound 2 in the thorough tier
			mb := 1
			if len(sc.Ops) == 2 && (sc.Shared || sc.SameEntry()) {
				mb = 2
			}
			js = append(js, job{sc, mb, 300, 4 * time.Minute})
		}
	}
	// state-directed scenarios (vectors that write one package-level location): bound 3, and all
	// schedules where the executions are short enough
	for _, sc := range scen.Collisions() {
		if tier == "thorough" {
			js = append(js, job{sc, 3, 0, 8 * time.Minute})
		} else {
			js = append(js, job{sc, 3, 400, 4 * time.Minute})
		}
	}
	return js
}

func worker(tier string, i, n int) {
	runtime.GOMAXPROCS(1)
	loadCollisionsFromEnv()
	if tier == "thorough" {
		unboundedLimit = 260
	} else {
		unboundedLimit = 90
		unboundedBudget = 40 * time.Second
	}
	w := bufio.NewWriter(os.Stdout)
	defer w.Flush()
	stuckOut = w
	skip := map[string]bool{}
	for _, n := range strings.Split(os.Getenv("VERIF_SCHED_SKIP"), "\x1e") {
		skip[n] = true
	}
	done := map[string]bool{}
	for _, n := range strings.Split(os.Getenv("VERIF_SCHED_DONE"), "\x1e") {
		done[n] = true
	}
	js := jobsFor(tier)
	// longest first within the shard would need estimates; a plain stride balances well enough
	for k, j := range js {
		if k%n != i || skip[j.sc.Name] || done[j.sc.Name] {
			continue
		}
		res := exploreScenario(j.sc, j.bound, j.pointLimit, j.budget)
		b, _ := json.Marshal(res)
		w.Write(b)
		w.WriteByte('\n')
		w.Flush()
	}
}

func parent(tier string) int {
	r := ev.New("C16", tier, "model_checking")
	// four times as many shards as cores, at most one worker process per core at a time: the
	// scenarios differ in cost by two orders of magnitude, finer shards balance the load
	n := 4 * runtime.NumCPU()
	sem := make(chan struct{}, runtime.NumCPU())
	exe, _ := os.Executable()
	// state-directed scenarios: the discovery pass runs in a child (it executes library code), its
	// groups are handed to every worker through the environment
	var disc discovery
	if out, err := exec.Command(exe, "discover", tier).Output(); err == nil && json.Unmarshal(out, &disc) == nil {
		if b, err := json.Marshal(disc.Groups); err == nil && len(disc.Groups) > 0 {
			os.Setenv("VERIF_SCHED_COLLISIONS", string(b))
			loadCollisionsFromEnv()
		}
		r.Set("collision_discovery", disc)
	} else {
		r.Set("collision_discovery", "the discovery pass did not finish; no state-directed scenarios were added")
	}
	var mu sync.Mutex
	var all []*scResult
	var stuck []string
	var wg sync.WaitGroup
	for i := 0; i < n; i++ {
		wg.Add(1)
		go func(i int) {
			defer wg.Done()
			sem <- struct{}{}
			defer func() { <-sem }()
			var skipList, doneList []string
			for attempt := 0; attempt < 40; attempt++ {
				cmd := exec.Command(exe, "worker", tier, strconv.Itoa(i), strconv.Itoa(n))
				cmd.Env = append(os.Environ(), "GOMAXPROCS=1", "VERIF_SCHED_SKIP="+strings.Join(skipList, "\x1e"), "VERIF_SCHED_DONE="+strings.Join(doneList, "\x1e"))
				var out, errb bytes.Buffer
				cmd.Stdout, cmd.Stderr = &out, &errb
				err := cmd.Run()
				stuckName := ""
				mu.Lock()
				sc := bufio.NewScanner(&out)
				sc.Buffer(make([]byte, 1<<20), 1<<26)
				for sc.Scan() {
					var st struct {
						Stuck string `json:"stuck"`
					}
					if json.Unmarshal(sc.Bytes(), &st) == nil && st.Stuck != "" {
						stuckName = st.Stuck
						continue
					}
					var res scResult
					if json.Unmarshal(sc.Bytes(), &res) == nil && res.Scenario != "" {
						all = append(all, &res)
						doneList = append(doneList, res.Scenario)
					}
				}
				if stuckName != "" {
					stuck = append(stuck, stuckName)
					skipList = append(skipList, stuckName)
					mu.Unlock()
					continue // re-spawn for the remaining scenarios of this shard
				}
				if err != nil {
					tail := errb.String()
					if len(tail) > 1500 {
						tail = tail[len(tail)-1500:]
					}
					r.Infra(fmt.Sprintf("worker %d failed: %v: %s", i, err, tail))
				}
				mu.Unlock()
				break
			}
		}(i)
	}
	wg.Wait()
	sort.Slice(all, func(i, j int) bool { return all[i].Scenario < all[j].Scenario })
	var execs, maxPoints int64
	perBound := map[string]int64{}
	complete := true
	multiOutcome, notPreemptedBoth, globalsChanged := 0, 0, 0
	var unbSc, unbDone, unbExec, unbStates int64
	slowest := ""
	slowestS := 0.0
	for _, res := range all {
		execs += res.Executions
		for b, n := range res.PerBound {
			perBound[fmt.Sprintf("schedules_at_preemption_bound_%d", b)] += n
		}
		perBound[fmt.Sprintf("scenarios_completed_to_bound_%d", res.Bound)]++
		execs -= res.Executions
		for _, n := range res.PerBound {
			execs += n
		}
		if int64(res.MaxPoints) > maxPoints {
			maxPoints = int64(res.MaxPoints)
		}
		if !res.Complete {
			complete = false
		}
		if res.Unbounded > 0 {
			unbSc++
			unbExec += res.Unbounded
			unbStates += res.UnboundedStates
			if res.UnboundedDone {
				unbDone++
			}
		}
		if res.Outcomes > 1 {
			multiOutcome++
		}
		if res.GlobalsChanged {
			globalsChanged++
		}
		both := true
		for _, p := range res.Preempted {
			both = both && p
		}
		if !both {
			notPreemptedBoth++
		}
		if res.Seconds > slowestS {
			slowestS, slowest = res.Seconds, res.Scenario
		}
		for _, v := range res.Violations {
			r.Violate(v)
		}
		for _, m := range res.Infra {
			r.Infra(m)
		}
	}
	if rf := os.Getenv("VERIF_RACE_RESULT"); rf != "" {
		var rr scen.RaceResult
		if b, err := os.ReadFile(rf); err != nil || json.Unmarshal(b, &rr) != nil {
			r.Infra("race pass result unreadable: " + rf)
		} else {
			scen.ApplyRace(r, rr)
		}
	} else {
		r.Set("race_pass", "not run (sched invoked directly)")
	}
	want := len(jobsFor(tier)) - len(stuck)
	if len(stuck) > 0 {
		// not a verdict on the property: the scheduler cannot control what these scenarios block on
		sort.Strings(stuck)
		r.Set("scenarios_not_explorable_under_the_controlled_scheduler", stuck)
		r.Set("exhaustive", false)
		complete = false
		fmt.Printf("INFRA: %d scenarios block on something the controlled scheduler does not see (channel or real lock inside the library?); they were left to the race pass: %v\n", len(stuck), stuck)
	}
	if len(all) != want {
		r.Infra(fmt.Sprintf("%d of %d scenarios reported", len(all), want))
	}
	execs += unbExec
	r.Add("evaluations", execs)
	r.Add("schedules", execs)
	r.Add("states", execs)              // one terminal state per complete execution (stateless search)
	r.Add("transitions", sumSteps(all)) // scheduling points executed
	r.Add("traces_validated_against_impl", execs)
	for k, v := range perBound {
		r.Set(k, v)
	}
	r.Set("scenarios", int64(len(all)))
	r.Set("unbounded_pass_scenarios", unbSc)
	r.Set("unbounded_pass_scenarios_completed", unbDone)
	r.Set("unbounded_pass_schedules", unbExec)
	r.Set("unbounded_pass_states", unbStates)
	r.Set("max_scheduling_points_per_execution", maxPoints)
	r.Set("scenarios_with_more_than_one_outcome", int64(multiOutcome))
	r.Set("scenarios_where_not_every_thread_was_preempted_mid_operation", int64(notPreemptedBoth))
	r.Set("scenarios_that_changed_package_level_state", int64(globalsChanged))
	r.Set("slowest_scenario", fmt.Sprintf("%s (%.1fs)", slowest, slowestS))
	r.Set("exhaustive", complete)
	r.Set("all_bounds_completed", complete)
	if len(all) > 0 {
		s := all[len(all)/2]
		r.Sample(map[string]any{"scenario": s.Scenario, "preemption_bound": s.Bound, "schedules": s.Executions, "max_points": s.MaxPoints, "distinct_outcomes": s.Outcomes})
	}
	r.Set("rule", "every schedule of every scenario up to the stated preemption bound (iterative context bounding; switches at a thread's end are free), plus for the scenarios with the shortest executions ALL schedules (no preemption bound) with state pruning on per-thread step counts while no context switch observes changed shared state, executed on the real code instrumented with a scheduling point before every statement of every library package; scenarios: every unordered pair of the operation catalogue (mc/internal/scen: 20 operations in the pair catalogue, further bulk operations) incl. a||a, with a shared decoded receiver and with distinct receivers, a||a and decode||query pairs on distinct objects with IDENTICAL inputs in every thread (twin mode: one cache key hit from all threads), plus 3-thread scenarios (six mixed ones and every multiset of three short queries on one shared object), plus state-directed scenarios: a discovery pass runs several thousand vectors one by one from a cold start, records which package-level location each writes, and every group of vectors that write one common location becomes 2- and 3-thread scenarios explored to preemption bound 3 (none on a tree without input-keyed package-level state); oracle per execution: every operation's result equals the sequential result, shared objects' observables unchanged, the same operations repeated sequentially after the concurrent phase still give the sequential results, no panic, no deadlock; determinism obligations: the empty schedule twice gives identical traces, every replayed prefix offers the recorded choices")
	r.Assume("statement-level atomicity and sequentially consistent memory; code outside the library's own packages (fmt, text/template, x/text, errs) runs atomically between two scheduling points; data races inside one statement are left to the separate free-running -race pass")
	r.Assume("every package-level variable of every library package is reset to its value at process start before each execution (so lazily built tables and caches are cold in every execution); state inside other packages is not reset")
	r.Assume("at most 3 goroutines; goroutines started by the library itself would not be controlled (the library starts none)")
	return r.Finish()
}

func sumSteps(all []*scResult) int64 {
	var n int64
	for _, r := range all {
		n += r.TotalSteps
	}
	return n
}

func replay(path string) int {
	b, err := os.ReadFile(path)
	if err != nil {
		fmt.Println(err)
		return 2
	}
	var doc struct {
		Violation ev.Violation `json:"violation"`
	}
	if err := json.Unmarshal(b, &doc); err != nil {
		fmt.Println(err)
		return 2
	}
	c := doc.Violation.Case
	name, _ := c["scenario"].(string)
	if js, ok := c["collision_groups_json"].(string); ok && js != "" {
		os.Setenv("VERIF_SCHED_COLLISIONS", js)
		loadCollisionsFromEnv()
	}
	var sc *scen.Scenario
	for _, s := range append(append(append(append(scen.Pairs(), scen.Triples()...), scen.QueryTriples()...), append(append(scen.Bulk(), scen.Tiny()...), scen.Twins()...)...), scen.Collisions()...) {
		if s.Name == name {
			s := s
			sc = &s
		}
	}
	if sc == nil {
		fmt.Println("unknown scenario", name)
		return 2
	}
	var prefix []int
	if arr, ok := c["schedule"].([]any); ok {
		for _, a := range arr {
			prefix = append(prefix, int(a.(float64)))
		}
	}
	res := &scResult{Scenario: sc.Name, Preempted: make([]bool, len(sc.Ops)), Complete: true}
	e := &explorer{sc: *sc, bound: 99, res: res, outcomes: map[string]bool{}, traces: map[uint64]bool{}}
	restoreGlobals()
	env, bodies := sc.Setup()
	for _, bd := range bodies {
		e.want = append(e.want, bd())
	}
	e.wantObs = env.Observe()
	x, results, obs := e.runOnce(prefix)
	e.check(x, results, obs, prefix)
	fmt.Printf("scenario: %s\nschedule: %v (%d context switches)\n", sc.Name, x.ChoiceList(len(x.Points)), x.Switches)
	for i := range results {
		fmt.Printf("thread %d (%s):\n  got      %s\n  expected %s\n", i, scen.Ops[sc.Ops[i]].Name, results[i], e.want[i])
	}
	if len(res.Violations) > 0 || len(res.Infra) > 0 {
		fmt.Println("REPRODUCED:", res.Violations, res.Infra)
		return 1
	}
	fmt.Println("not reproduced")
	return 0
}

func main() {
	// the driver's own scheduling point between an export and draining its reader
	scen.Pause = func() { sched.Yield(-1) }
	snapshotGlobals()
	if len(os.Args) < 3 {
		fmt.Println("usage: sched run <tier> | worker <tier> <i> <n> | replay <file>")
		os.Exit(2)
	}
	switch os.Args[1] {
	case "run":
		os.Exit(parent(os.Args[2]))
	case "discover":
		b, _ := json.Marshal(discover())
		os.Stdout.Write(b)
	case "worker":
		i, _ := strconv.Atoi(os.Args[3])
		n, _ := strconv.Atoi(os.Args[4])
		worker(os.Args[2], i, n)
	case "replay":
		os.Exit(replay(os.Args[2]))
	case "maporder": // maporder <tier> <outfile>
		os.Exit(moParent(os.Args[2], os.Args[3]))
	case "maporder-worker":
		i, _ := strconv.Atoi(os.Args[3])
		n, _ := strconv.Atoi(os.Args[4])
		moWorker(os.Args[2], i, n)
	}
}
