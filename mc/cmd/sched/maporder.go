package main

// Map-order explorer (C15; DESIGN.md §10.4).  Go leaves the iteration order of a range over a map
// unspecified, so a library result that depends on it is not deterministic.  In the instrumented
// build every range over a map asks verifsched for the order; this explorer treats that answer as
// an environment choice and enumerates it:
//
//	phase 1 (deviation-bounded, per event): for every operation of a catalogue (decode-and-observe
//	  of accepted and rejected vectors at every level, report construction and export, every table
//	  parser) the default execution is recorded; then, for every range event j it executed and
//	  every alternative order of that event's keys, the operation is re-executed with exactly that
//	  event deviating (bound 1; thorough: every pair of events, bound 2) and must give the same result;
//	phase 2 (uniform policies, complete domains): every vector of the complete v2 base x temporal
//	  domain, of v2 environmental slices and of the complete v3 base x temporal domain is decoded
//	  once, then every query is repeated under every uniform policy "all range events take their
//	  a-th alternative" (skipped for a vector whose queries execute no range event, which is the
//	  case for the whole pinned tree); the complete v2 base x temporal domain and the v3 base
//	  domain are additionally decoded under every uniform policy.
//
// The process-global order control is not goroutine-safe: the work is sharded over worker
// processes, each sequential and deterministic.

import (
	"bytes"
	"fmt"
	"io"
	"os"
	"os/exec"
	"runtime"
	"strconv"
	"strings"
	"sync"

	"cvssmc/internal/dump"
	"cvssmc/internal/ev"
	"cvssmc/internal/lib"
	"cvssmc/internal/spec"

	v3 "github.com/goark/go-cvss/v3/metric"
	"github.com/goark/go-cvss/v3/report"
	sched "github.com/goark/go-cvss/verifsched"
	"golang.org/x/text/language"
)

type moOp struct {
	name string
	run  func() string
}

func moSafe(f func() string) (res string) {
	defer func() {
		if x := recover(); x != nil {
			res = fmt.Sprintf("PANIC: %v", x)
		}
	}()
	return f()
}

const moTemplate = "{{.Vector}}|{{.SeverityName}}={{.SeverityValue}}|{{.BaseScore}}|{{.AVName}}={{.AVValue}}"

// moObserve: everything observable about a decoded object, its views and (v3) its reports.
func moObserve(o any, reports bool) string {
	var b strings.Builder
	ver, level := lib.VerLevel(o)
	for lv := level; lv >= 0; lv-- {
		view := o
		if lv < level {
			view = lib.Sub(o, lv)
		}
		b.WriteString(lib.Observe(view).String())
		b.WriteString(" | ")
	}
	for _, m := range spec.UpTo(ver, level) {
		v, ok := lib.Field(o, m.Name)
		fmt.Fprintf(&b, "%s=%d/%v ", m.Name, v, ok)
	}
	if ver == 3 {
		b.WriteString("Ver=" + lib.V3Ver(o))
		if reports && !lib.IsNil(o) {
			for _, l := range []language.Tag{language.English, language.Japanese, language.French} {
				opt := report.WithOptionsLanguage(l)
				var rep interface {
					ExportWithString(string) (io.Reader, error)
				}
				switch x := o.(type) {
				case *v3.Base:
					rep = report.NewBase(x, opt)
				case *v3.Temporal:
					rep = report.NewTemporal(x, opt)
				case *v3.Environmental:
					rep = report.NewEnvironmental(x, opt)
				}
				b.WriteString(" report(" + l.String() + ")=" + dump.Of(rep))
				rd, err := rep.ExportWithString(moTemplate)
				if err != nil {
					b.WriteString(" export-error=" + lib.Class(err))
				} else {
					bs, _ := io.ReadAll(rd)
					b.WriteString(" export=" + string(bs))
				}
			}
		}
	}
	return b.String()
}

func moDecodeObserve(ver, level int, s string, viaNil, reports bool) string {
	var o any
	var err error
	var pan string
	if viaNil {
		o, err, pan = lib.Decode(lib.Nil(ver, level), s)
	} else {
		o, err, pan = lib.DecodeNew(ver, level, s)
	}
	if o == nil || lib.IsNil(o) {
		msg := ""
		if err != nil {
			msg = err.Error()
		}
		return fmt.Sprintf("rejected %s %q panic=%q", lib.Class(err), msg, pan)
	}
	return "accepted " + moObserve(o, reports)
}

var moVectors = map[int][]string{
	3: {
		"CVSS:3.1/AV:N/AC:L/PR:N/UI:R/S:C/C:H/I:L/A:N",
		"CVSS:3.0/AV:P/AC:H/PR:H/UI:N/S:U/C:N/I:N/A:H/E:F/RL:W/RC:R",
		"CVSS:3.1/AV:A/AC:H/PR:L/UI:N/S:C/C:L/I:H/A:L/E:P/RL:O/RC:U/CR:L/IR:M/AR:L/MAV:P/MAC:L/MPR:L/MUI:R/MS:C/MC:H/MI:H/MA:H",
		"CVSS:3.0/AV:L/AC:L/PR:L/UI:R/S:U/C:L/I:N/A:N/E:U/RL:T/RC:C/CR:H/IR:H/AR:H/MAV:N/MAC:H/MPR:N/MUI:N/MS:U/MC:N/MI:L/MA:N",
		"CVSS:3.1/A:H/I:H/C:H/S:U/UI:N/PR:N/AC:L/AV:N",
		"CVSS:3.1/AV:N/AC:L/PR:N/UI:N/S:U/C:H/I:H/A:H/E:X/RL:X/RC:X/MS:X/MAV:X",
		// rejected
		"CVSS:3.1/AV:N/AC:L/PR:N/UI:R/S:C/C:H/I:L/A:Q",
		"CVSS:3.1/AV:N/AC:L/PR:N/UI:R/S:C/C:H/I:L/A:N/ZZ:N",
		"CVSS:3.1/AV:N/AC:L/PR:N/UI:R/S:C/C:H/I:L/A:N/AV:L",
		"CVSS:3.1/AV:N/AC:L/PR:N/UI:R/S:C/C:H/I:L",
		"CVSS:3.2/AV:N/AC:L/PR:N/UI:R/S:C/C:H/I:L/A:N",
		"CVSS:3.1/av:n/AC:L/PR:N/UI:R/S:C/C:H/I:L/A:N",
		"AV:N/AC:L/Au:N/C:N/I:P/A:C",
		"",
	},
	2: {
		"AV:N/AC:L/Au:N/C:N/I:P/A:C",
		"AV:L/AC:M/Au:S/C:N/I:N/A:P/E:POC/RL:TF/RC:C",
		"AV:N/AC:L/Au:N/C:N/I:N/A:C/E:F/RL:OF/RC:C/CDP:H/TD:H/CR:M/IR:M/AR:H",
		"AV:A/AC:L/Au:N/C:C/I:C/A:C/CDP:H/TD:H/CR:L/IR:ND/AR:ND",
		"AV:N/AC:L/Au:N/C:C/I:C/A:C/E:POC/RL:W/RC:C",
		"AV:A/AC:H/Au:M/C:P/I:P/A:P/E:ND/RL:ND/RC:ND/CDP:ND/TD:ND/CR:ND/IR:ND/AR:ND",
		// rejected
		"AV:N/AC:L/Au:N/C:N/I:P/A:Q",
		"AV:N/AC:L/Au:N/C:N/I:P/A:C/E:F",
		"AC:L/AV:N/Au:N/C:N/I:P/A:C",
		"AV:N/AC:L/Au:N/C:N/I:P/A:C/ZZ:N",
		"AV:N/AC:L/Au:N/C:N/I:P/A:C/A:C",
		"CVSS:3.1/AV:N/AC:L/PR:N/UI:R/S:C/C:H/I:L/A:N",
		"",
	},
}

func moCatalogue() []moOp {
	var ops []moOp
	for _, ver := range []int{3, 2} {
		for level := 0; level < 3; level++ {
			for _, s := range moVectors[ver] {
				for _, viaNil := range []bool{false, true} {
					ver, level, s, viaNil := ver, level, s, viaNil
					nm := fmt.Sprintf("decode-and-observe v%d %s %q", ver, spec.LevelNames[level], s)
					if viaNil {
						nm += " through a nil receiver"
					}
					ops = append(ops, moOp{nm, func() string { return moDecodeObserve(ver, level, s, viaNil, true) }})
				}
			}
		}
		for _, en := range lib.Enums(ver) {
			en := en
			ops = append(ops, moOp{fmt.Sprintf("v%d %s: Get(code).String() for every code, a few non-codes, String() of every integer", ver, en.Name), func() string {
				var b strings.Builder
				for _, c := range en.Codes {
					v := en.Parse(c.Code)
					fmt.Fprintf(&b, "%s->%d->%q ", c.Code, v, en.Str(v))
				}
				for _, s := range []string{"", "Q", "x", "n", "ND", "X", "N,L"} {
					fmt.Fprintf(&b, "%q->%d ", s, en.Parse(s))
				}
				for i := -1; i <= en.MaxEnum+1; i++ {
					fmt.Fprintf(&b, "%d:%q ", i, en.Str(i))
				}
				return b.String()
			}})
		}
	}
	for _, s := range []string{"3.0", "3.1", "3.2", "", "3", "CVSS:3.1"} {
		s := s
		ops = append(ops, moOp{fmt.Sprintf("v3 GetVersion(%q)", s), func() string {
			v, err := v3.GetVersion(s)
			return fmt.Sprintf("%d %q %s", int(v), v.String(), lib.Class(err))
		}})
	}
	return ops
}

type moRun struct {
	r                       *ev.Run
	execs, events, devs     int64
	opsWithEvents, maxEvent int64
	rejected                int64
}

func (m *moRun) violate(op string, targets [][2]int, sizes []int, got, want string) {
	var ts []map[string]any
	for _, t := range targets {
		sz := 0
		if t[0] >= 0 && t[0] < len(sizes) {
			sz = sizes[t[0]]
		}
		ts = append(ts, map[string]any{"range_event": t[0], "keys_in_that_map": sz, "alternative_order": t[1]})
	}
	m.r.Violate(ev.Violation{Kind: "result-depends-on-map-iteration-order",
		Case:     map[string]any{"engine": "maporder", "operation": op, "deviations": ts},
		Observed: got, Expected: want + "  (the result under the default order; Go leaves the order of a range over a map unspecified, so every order may occur)"})
}

func moPhase1(m *moRun, thorough bool, shard, shards int) {
	ops := moCatalogue()
	for i, op := range ops {
		if i%shards != shard {
			continue
		}
		sched.OrderReset(-1, 0)
		want := moSafe(op.run)
		n := sched.OrderEvents
		sizes := append([]int{}, sched.OrderSizes...)
		m.execs++
		m.events += int64(n)
		if n > 0 {
			m.opsWithEvents++
		}
		if int64(n) > m.maxEvent {
			m.maxEvent = int64(n)
		}
		bad := 0
		for j := 0; j < n && bad < 3; j++ {
			for a := 0; a < sched.OrderAlts(sizes[j]) && bad < 3; a++ {
				sched.OrderReset(j, a)
				got := moSafe(op.run)
				m.execs++
				m.devs++
				if got != want {
					m.violate(op.name, [][2]int{{j, a}}, sizes, got, want)
					bad++
				}
			}
		}
		if thorough && n <= 60 && bad == 0 {
			// bound 2: every pair of events, every pair of alternatives of maps with <= 3 keys,
			// first/last alternative otherwise
			alts := func(sz int) []int {
				k := sched.OrderAlts(sz)
				if sz <= 3 {
					r := make([]int, k)
					for i := range r {
						r[i] = i
					}
					return r
				}
				return []int{0, k / 2, k - 1}
			}
			for j1 := 0; j1 < n && bad < 3; j1++ {
				for j2 := j1 + 1; j2 < n && bad < 3; j2++ {
					for _, a1 := range alts(sizes[j1]) {
						for _, a2 := range alts(sizes[j2]) {
							sched.OrderReset(j1, a1)
							sched.OrderTarget2, sched.OrderAlt2 = j2, a2
							got := moSafe(op.run)
							m.execs++
							m.devs++
							if got != want && bad < 3 {
								m.violate(op.name, [][2]int{{j1, a1}, {j2, a2}}, sizes, got, want)
								bad++
							}
						}
					}
				}
			}
		}
	}
	sched.OrderOff()
}

// ---------------------------------------------------------------------------------------------
// phase 2: complete domains under uniform policies

func codesOf(ver int, name string) []string {
	var r []string
	for _, c := range spec.Find(ver, name).Codes {
		r = append(r, c.Code)
	}
	return r
}

func product(ver int, names []string, f func(string)) {
	var rec func(i int, acc []string)
	rec = func(i int, acc []string) {
		if i == len(names) {
			f(strings.Join(acc, "/"))
			return
		}
		for _, c := range codesOf(ver, names[i]) {
			rec(i+1, append(acc, names[i]+":"+c))
		}
	}
	rec(0, nil)
}

func moQueries(o any) string {
	var b strings.Builder
	_, level := lib.VerLevel(o)
	for lv := level; lv >= 0; lv-- {
		view := o
		if lv < level {
			view = lib.Sub(o, lv)
		}
		b.WriteString(lib.Observe(view).String())
		b.WriteString(" | ")
	}
	return b.String()
}

const moPolicies = 24

// moVector: decode once under the default order, then repeat the queries under every uniform
// policy if they execute any range event; optionally decode under every uniform policy too.
func moVector(m *moRun, ver, level int, s string, decodeToo bool, vectors, skipped *int64) {
	sched.OrderOff()
	o, _, _ := lib.DecodeNew(ver, level, s)
	*vectors++
	if o == nil || lib.IsNil(o) {
		m.rejected++ // acceptance is C07/C08's business, not this check's
		return
	}
	sched.OrderReset(-1, 0)
	want := moSafe(func() string { return moQueries(o) })
	m.execs++
	if n := sched.OrderEvents; n > 0 {
		m.events += int64(n)
		mx := 0
		for _, sz := range sched.OrderSizes {
			if k := sched.OrderAlts(sz); k > mx {
				mx = k
			}
		}
		for a := 0; a < mx && a < moPolicies; a++ {
			sched.OrderReset(-2, a)
			got := moSafe(func() string { return moQueries(o) })
			m.execs++
			m.devs++
			if got != want {
				m.violate(fmt.Sprintf("queries on the object decoded from %q by the v%d %s decoder", s, ver, spec.LevelNames[level]), [][2]int{{-2, a}}, nil, got, want)
				break
			}
		}
	} else {
		*skipped++
	}
	if decodeToo {
		sched.OrderOff()
		full := "accepted " + moObserve(o, false)
		for a := 0; a < moPolicies; a++ {
			sched.OrderReset(-2, a)
			got := moSafe(func() string { return moDecodeObserve(ver, level, s, false, false) })
			sched.OrderOff()
			m.execs++
			m.devs++
			if got != full {
				m.violate(fmt.Sprintf("decode-and-observe %q at the v%d %s decoder", s, ver, spec.LevelNames[level]), [][2]int{{-2, a}}, nil, got, full)
				break
			}
		}
	}
	sched.OrderOff()
}

func moPhase2(m *moRun, thorough bool, shard, shards int) {
	var vectors, skipped int64
	idx := 0
	mine := func() bool { idx++; return idx%shards == shard }
	// v2: complete base x (absent + complete temporal) domain, temporal decoder; decode under policies too
	var v2temporal []string
	v2temporal = append(v2temporal, "")
	product(2, []string{"E", "RL", "RC"}, func(t string) { v2temporal = append(v2temporal, "/"+t) })
	product(2, []string{"AV", "AC", "Au", "C", "I", "A"}, func(b string) {
		for _, t := range v2temporal {
			if mine() {
				moVector(m, 2, 1, b+t, true, &vectors, &skipped)
			}
		}
	})
	// v2 environmental slices: 3 base vectors (incl. the one scoring 10.0) x every temporal x every environmental group
	var v2env []string
	product(2, []string{"CDP", "TD", "CR", "IR", "AR"}, func(e string) { v2env = append(v2env, "/"+e) })
	for _, b := range []string{"AV:N/AC:L/Au:N/C:C/I:C/A:C", "AV:L/AC:H/Au:M/C:P/I:N/A:N", "AV:A/AC:M/Au:S/C:N/I:P/A:C"} {
		for ti, t := range v2temporal {
			if !thorough && ti%5 != 0 && ti != len(v2temporal)-1 {
				continue
			}
			for _, e := range v2env {
				if mine() {
					moVector(m, 2, 2, b+t+e, false, &vectors, &skipped)
				}
			}
		}
	}
	// v3: complete version x base domain at the base decoder (decode under policies too), and the
	// complete version x base x temporal domain at the temporal decoder
	var v3temporal []string
	product(3, []string{"E", "RL", "RC"}, func(t string) { v3temporal = append(v3temporal, "/"+t) })
	for _, verLabel := range []string{"CVSS:3.0/", "CVSS:3.1/"} {
		product(3, []string{"AV", "AC", "PR", "UI", "S", "C", "I", "A"}, func(b string) {
			if mine() {
				moVector(m, 3, 0, verLabel+b, true, &vectors, &skipped)
			}
			for _, t := range v3temporal {
				if mine() {
					moVector(m, 3, 1, verLabel+b+t, thorough, &vectors, &skipped)
				}
			}
		})
	}
	// v3 environmental: every vector that differs from a background in at most 2 environmental metrics
	envNames := []string{"CR", "IR", "AR", "MAV", "MAC", "MPR", "MUI", "MS", "MC", "MI", "MA"}
	for _, bg := range []string{"CVSS:3.1/AV:A/AC:H/PR:L/UI:N/S:C/C:L/I:H/A:L/E:P/RL:O/RC:U", "CVSS:3.0/AV:N/AC:L/PR:N/UI:R/S:U/C:H/I:L/A:N"} {
		for i := 0; i < len(envNames); i++ {
			for _, ci := range codesOf(3, envNames[i]) {
				for j := i; j < len(envNames); j++ {
					for _, cj := range codesOf(3, envNames[j]) {
						s := bg + "/" + envNames[i] + ":" + ci
						if j > i {
							s += "/" + envNames[j] + ":" + cj
						} else if cj != ci {
							continue
						}
						if mine() {
							moVector(m, 3, 2, s, false, &vectors, &skipped)
						}
					}
				}
			}
		}
	}
	m.r.Add("maporder_domain_vectors_rejected_by_the_decoder", m.rejected)
	m.r.Add("maporder_domain_vectors", vectors)
	m.r.Add("maporder_domain_vectors_whose_queries_execute_no_map_range", skipped)
}

func moWorker(tier string, shard, shards int) {
	r := ev.New("C15", tier, "model_checking")
	m := &moRun{r: r}
	moPhase1(m, tier == "thorough", shard, shards)
	p1execs, p1events := m.execs, m.events
	moPhase2(m, tier == "thorough", shard, shards)
	r.Add("maporder_catalogue_executions", p1execs)
	r.Add("maporder_catalogue_range_events_in_default_executions", p1events)
	r.Add("maporder_catalogue_operations_with_range_events", m.opsWithEvents)
	r.Add("maporder_executions", m.execs)
	r.Add("maporder_deviating_executions", m.devs)
	os.Stdout.Write(r.Export())
}

// moParent runs the shards and writes the merged export to out.
func moParent(tier, out string) int {
	n := runtime.NumCPU()
	if n > 16 {
		n = 16
	}
	self, _ := os.Executable()
	r := ev.New("C15", tier, "model_checking")
	var wg sync.WaitGroup
	var mu sync.Mutex
	failed := false
	for i := 0; i < n; i++ {
		wg.Add(1)
		go func(i int) {
			defer wg.Done()
			cmd := exec.Command(self, "maporder-worker", tier, strconv.Itoa(i), strconv.Itoa(n))
			cmd.Env = append(os.Environ(), "GOMAXPROCS=1")
			var stdout, stderr bytes.Buffer
			cmd.Stdout, cmd.Stderr = &stdout, &stderr
			err := cmd.Run()
			mu.Lock()
			defer mu.Unlock()
			if err != nil {
				failed = true
				fmt.Fprintf(os.Stderr, "maporder worker %d: %v\n%s\n", i, err, stderr.String())
				return
			}
			if err := r.Merge(stdout.Bytes()); err != nil {
				failed = true
				fmt.Fprintf(os.Stderr, "maporder worker %d: %v\n", i, err)
			}
		}(i)
	}
	wg.Wait()
	if failed {
		return 2
	}
	r.Set("maporder_catalogue_operations", int64(len(moCatalogue())))
	r.Set("maporder_uniform_policies", int64(moPolicies))
	if err := os.WriteFile(out, r.Export(), 0o644); err != nil {
		fmt.Fprintln(os.Stderr, err)
		return 2
	}
	fmt.Printf("maporder: executions=%d deviating=%d range_events_in_catalogue=%d domain_vectors=%d violations=%d\n",
		r.Get("maporder_executions"), r.Get("maporder_deviating_executions"), r.Get("maporder_catalogue_range_events_in_default_executions"), r.Get("maporder_domain_vectors"), r.Violations())
	return 0
}
