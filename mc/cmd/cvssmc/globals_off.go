//go:build !verifdump

package main

const haveGlobals = false

func globalsDump() string { return "" }
func globalsCount() int   { return 0 }
