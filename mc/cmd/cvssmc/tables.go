package main

// C20: value codes, enumeration values and weights form the specification's tables.
// Complete enumeration of finite tables.

import (
	"fmt"
	"reflect"
	"strconv"
	"strings"

	"cvssmc/internal/ev"
	"cvssmc/internal/lib"

	v3 "github.com/goark/go-cvss/v3/metric"
	v3version "github.com/goark/go-cvss/v3/version"
)

func specW(s string) float64 {
	f, err := strconv.ParseFloat(s, 64)
	if err != nil {
		panic("bad weight " + s)
	}
	return f
}

func codeAlphabetStrings(maxLen int) []string {
	sigma := "ABCDEFGHIJKLMNOPQRSTUVWXYZ0123456789"
	out := []string{""}
	prev := []string{""}
	for l := 1; l <= maxLen; l++ {
		var cur []string
		for _, p := range prev {
			for _, c := range sigma {
				cur = append(cur, p+string(c))
			}
		}
		out = append(out, cur...)
		prev = cur
	}
	// a few more shapes: lower case, blanks, longer
	out = append(out, "n", "h", "x", "nd", "poc", " N", "N ", "N\x00", "NN", "Not Defined", "None", "High", "ÿ", "X:", ":X")
	return out
}

// codePads: all strings of 1-3 bytes over NUL, blank, tab, newline and 0xFF
var codePads = func() []string {
	sigma := []byte{0x00, ' ', '\t', '\n', 0xFF}
	var out, prev []string
	prev = []string{""}
	for l := 1; l <= 3; l++ {
		var cur []string
		for _, p := range prev {
			for _, c := range sigma {
				cur = append(cur, p+string([]byte{c}))
			}
		}
		out = append(out, cur...)
		prev = cur
	}
	return out
}()

// codeSeparators: bytes that a table kept as one delimited string might use
var codeSeparators = []string{"", ",", ";", "|", "/", ":", ".", " ", "-", "_", "+", "&", "=", "\t", "\n", "\x00", ", ", "\"", "'"}

func joinedCodes(en *lib.Enum) []string {
	var codes []string
	for _, c := range en.Codes {
		codes = append(codes, c.Code)
	}
	var out []string
	for _, sep := range codeSeparators {
		for _, a := range codes {
			if sep != "" {
				out = append(out, sep+a, a+sep, sep+a+sep, en.Name+sep+a, a+sep+en.Name)
			}
			for _, b := range codes {
				out = append(out, a+sep+b)
				for _, c := range codes {
					out = append(out, a+sep+b+sep+c)
				}
			}
		}
		// the whole table in specification order and reversed
		out = append(out, strings.Join(codes, sep))
	}
	return out
}

// glyphVariants: strings that LOOK like a code or alias one under a careless conversion — the
// full-width forms (U+FF21...), one character at a time and all at once, in both cases; runes whose
// low byte or low 16 bits equal the code letter; a combining accent behind the code; Cyrillic and
// Greek capitals of the same shape (round 5, C20-A-r5: width.Fold before the lookup)
func glyphVariants(en *lib.Enum) []string {
	look := map[rune][]rune{'A': {'А', 'Α'}, 'C': {'С'}, 'E': {'Е', 'Ε'}, 'H': {'Н', 'Η'}, 'I': {'І', 'Ι'}, 'M': {'М', 'Μ'}, 'N': {'Ν'}, 'O': {'О', 'Ο'}, 'P': {'Р', 'Ρ'}, 'T': {'Т', 'Τ'}, 'X': {'Х', 'Χ'}, 'S': {'Ѕ'}, 'F': {'Ϝ'}, 'L': {'Ｌ'}, 'U': {'Ս'}, 'R': {'Ꭱ'}, 'W': {'Ԝ'}, 'D': {'Ꭰ'}}
	var out []string
	for _, c := range en.Codes {
		rs := []rune(c.Code)
		all := make([]rune, len(rs))
		allLower := make([]rune, len(rs))
		for i, ch := range rs {
			all[i] = ch + 0xFEE0
			allLower[i] = []rune(strings.ToLower(string(ch)))[0] + 0xFEE0
			one := append([]rune{}, rs...)
			one[i] = ch + 0xFEE0
			out = append(out, string(one))
			for _, hi := range []rune{0x100, 0x200, 0x2500, 0xFF00, 0x10000, 0x1F600} {
				alias := append([]rune{}, rs...)
				alias[i] = hi | ch
				out = append(out, string(alias))
			}
			for _, l := range look[ch] {
				lk := append([]rune{}, rs...)
				lk[i] = l
				out = append(out, string(lk))
			}
		}
		out = append(out, string(all), string(allLower), c.Code+"\u0301", "\u200b"+c.Code, c.Code+"\u200b", "\ufeff"+c.Code, c.Code+"\ufe0f")
	}
	return out
}

func tableCase(en *lib.Enum, what string, arg any) map[string]any {
	return map[string]any{"cvss": en.Ver, "metric": en.Name, "what": what, "argument": arg}
}

func init() {
	register("C20", "exploration", func(r *ev.Run, thorough bool) {
		maxLen := 3
		others := codeAlphabetStrings(maxLen)
		// white-box alphabet: every string literal of the library's current source as a code
		others = append(others, sourceLiteralCodes()...)
		r.Set("source_literals_offered_as_codes", len(sourceLiteralCodes()))
		var evals, distinct int64
		for _, ver := range []int{3, 2} {
			for _, en := range lib.Enums(ver) {
				en := en
				// (1) codes round-trip and are distinct
				seenConst := map[int]string{}
				for i, c := range en.Codes {
					got := en.Parse(c.Code)
					evals++
					distinct++
					if got != en.Consts[i] {
						r.Violate(ev.Violation{Kind: "code-parses-to-other-value", Case: tableCase(en, "Get", c.Code), Observed: fmt.Sprintf("%d (prints %q)", got, en.Str(got)), Expected: fmt.Sprintf("%d, the constant the library names for code %q", en.Consts[i], c.Code)})
					}
					if s := en.Str(got); s != c.Code {
						r.Violate(ev.Violation{Kind: "code-does-not-round-trip", Case: tableCase(en, "Get.String", c.Code), Observed: s, Expected: c.Code})
					}
					if s := en.Str(en.Consts[i]); s != c.Code {
						r.Violate(ev.Violation{Kind: "constant-prints-other-code", Case: tableCase(en, "String", en.Consts[i]), Observed: s, Expected: c.Code})
					}
					if prev, dup := seenConst[got]; dup {
						r.Violate(ev.Violation{Kind: "two-codes-one-value", Case: tableCase(en, "Get", c.Code), Observed: fmt.Sprintf("same value as code %q", prev), Expected: "distinct values"})
					}
					seenConst[got] = c.Code
					if got == en.Unknown {
						r.Violate(ev.Violation{Kind: "code-parses-to-unknown", Case: tableCase(en, "Get", c.Code), Observed: "unknown/invalid", Expected: "a defined value"})
					}
				}
				// (2) every other string parses to unknown
				for _, s := range others {
					if en.Has(s) {
						continue
					}
					evals++
					if got := en.Parse(s); got != en.Unknown {
						r.Violate(ev.Violation{Kind: "non-code-accepted", Case: tableCase(en, "Get", s), Observed: fmt.Sprintf("%d (prints %q)", got, en.Str(got)), Expected: "the unknown/invalid value"})
					}
				}
				// every code decorated with 1-3 bytes of padding in front, behind, or both
				for _, c := range en.Codes {
					for _, pad := range codePads {
						for _, sdec := range []string{pad + c.Code, c.Code + pad, pad + c.Code + pad} {
							if en.Has(sdec) {
								continue
							}
							evals++
							if got := en.Parse(sdec); got != en.Unknown {
								r.Violate(ev.Violation{Kind: "non-code-accepted", Case: tableCase(en, "Get", fmt.Sprintf("%q", sdec)), Observed: fmt.Sprintf("%d (prints %q)", got, en.Str(got)), Expected: "the unknown/invalid value"})
							}
						}
					}
				}
				// every sequence of 2 or 3 codes of this metric (all orders, repetitions included)
				// joined by every separator of a punctuation alphabet (and by nothing), every
				// code with a separator in front or behind, and "name<sep>code": a list-based or
				// substring-based lookup accepts some of them (round 4, C20-A-r4)
				for _, sdec := range append(append(joinedCodes(en), glyphVariants(en)...), hashAliasCodes(en)...) {
					if en.Has(sdec) {
						continue
					}
					evals++
					if got := en.Parse(sdec); got != en.Unknown {
						r.Violate(ev.Violation{Kind: "non-code-accepted", Case: tableCase(en, "Get", fmt.Sprintf("%q", sdec)), Observed: fmt.Sprintf("%d (prints %q)", got, en.Str(got)), Expected: "the unknown/invalid value"})
					}
				}
				// a code followed by filler of a length around every multiple of 256 up to 1024, and 2^16
				for _, c := range en.Codes {
					for _, fill := range []byte{0x00, 'A', ' '} {
						for _, n := range []int{253, 254, 255, 256, 257, 509, 510, 511, 512, 513, 768, 1024, 65533, 65534, 65535, 65536} {
							sdec := c.Code + strings.Repeat(string([]byte{fill}), n)
							evals++
							if got := en.Parse(sdec); got != en.Unknown {
								r.Violate(ev.Violation{Kind: "non-code-accepted", Case: tableCase(en, "Get", fmt.Sprintf("%q followed by %d bytes 0x%02x", c.Code, n, fill)), Observed: fmt.Sprintf("%d (prints %q)", got, en.Str(got)), Expected: "the unknown/invalid value"})
							}
						}
					}
				}
				distinct += int64(len(others))
				// (3) every enumeration integer
				defined := map[int]bool{}
				for _, c := range en.Consts {
					defined[c] = true
				}
				ints := []int{-1 << 31, -2, -1, 1 << 31}
				for i := 0; i <= en.MaxEnum+2; i++ {
					ints = append(ints, i)
				}
				// integers that alias a defined value when truncated to 8, 16 or 32 bits
				for _, d := range en.Consts {
					ints = append(ints, d+1<<8, d-1<<8, d+1<<16, d+1<<32, d-1<<32, d+5<<32, d+1<<48)
				}
				unkPred := en.Predicates(en.Unknown)
				if en.Str(en.Unknown) != "" {
					r.Violate(ev.Violation{Kind: "unknown-prints-text", Case: tableCase(en, "String", en.Unknown), Observed: en.Str(en.Unknown), Expected: "empty text"})
				}
				npred := 0
				for _, p := range []string{"IsUnknown", "IsValid"} {
					if _, ok := unkPred[p]; ok {
						npred++
					}
				}
				if npred == 0 {
					r.Violate(ev.Violation{Kind: "no-validity-predicate", Case: tableCase(en, "IsUnknown/IsValid", nil), Observed: "neither method exists", Expected: "a validity predicate"})
				}
				for _, i := range ints {
					evals++
					s := en.Str(i)
					if defined[i] {
						for _, p := range []string{"IsUnknown", "IsValid"} {
							if u, ok := unkPred[p]; ok && en.Predicates(i)[p] == u {
								r.Violate(ev.Violation{Kind: "validity-predicate-does-not-distinguish", Case: tableCase(en, p, i), Observed: fmt.Sprintf("%s()=%v for defined value %q and for the unknown value", p, u, s), Expected: "different answers"})
							}
						}
						continue
					}
					if s != "" {
						r.Violate(ev.Violation{Kind: "undefined-value-prints-code", Case: tableCase(en, "String", i), Observed: s, Expected: "empty text"})
					}
				}
				// (4) weights
				checkWeights(r, en, &evals)
			}
		}
		checkVersions(r, &evals, others)
		var fe [][]string
		for _, ver := range []int{3, 2} {
			for _, en := range lib.Enums(ver) {
				fe = append(fe, []string{"enum", fmt.Sprint(ver), en.Name}, []string{"weightsfirst", fmt.Sprint(ver), en.Name})
			}
		}
		firstUse(r, fe)
		r.Phase("tables after other process histories and under other environments", func() {
			// a v3 table asked first in a process that has only used v2 so far, and vice versa
			var e3, e2 [][]string
			for _, e := range fe {
				if len(e) > 1 && e[0] == "enum" && e[1] == "3" {
					e3 = append(e3, e)
				} else if len(e) > 1 && e[0] == "enum" {
					e2 = append(e2, e)
				}
			}
			historyAndEnvironment(r, e3, []string{"v2-first"})
			historyAndEnvironment(r, e2, []string{"v3-first"})
		})
		r.Add("evaluations", evals)
		r.Add("distinct_nontrivial", distinct)
		r.Sample(map[string]any{"metric": "v3 MPR", "checks": "Get(code) for X,N,L,H; Get(s) for 47,989 other strings; String/IsValid for integers -2..6; Value(MS,S,PR) for 3x2x3 contexts"})
		r.Set("metrics", int64(len(lib.Enums3)+len(lib.Enums2)))
		r.Set("non_code_strings_per_metric", int64(len(others)))
		r.Set("exhaustive", true)
		r.Set("rule", "36 metrics + 2 version parsers x (every specification code; every string of length <=3 over A-Z0-9, every code padded with 1-3 bytes of NUL/blank/tab/newline/0xFF in front, behind or both, every sequence of 2-3 codes of the metric joined by each of 19 separators, every code in full-width, low-byte-aliasing and look-alike (Cyrillic, Greek) characters, and a few other shapes as non-codes; every enumeration integer in [-2, max+2] and +-2^31): Get(code).String()==code and equals the constant the library names for that code, distinct codes give distinct values, every other string gives the unknown/invalid constant, which prints empty and on which IsUnknown/IsValid answers differently than on every defined value; Value(...) equals the specification weight for every value, both scopes for PR/MPR (all MS x S x PR contexts) and every base value for a Not Defined Modified metric; distinct by (metric, argument)")
		r.Assume("weights compared as float64 parsed from the specification's decimal strings (the library's tables are float literals of the same decimals)")
	})
}

func enumVals(ver int, name string) (*lib.Enum, []reflect.Value) {
	en := lib.EnumOf(ver, name)
	var vs []reflect.Value
	for _, c := range en.Consts {
		vs = append(vs, en.Val(c))
	}
	return en, vs
}

func checkWeights(r *ev.Run, en *lib.Enum, evals *int64) {
	fail := func(i int, ctx string, got, want float64) {
		r.Violate(ev.Violation{Kind: "weight", Case: tableCase(en, "Value", fmt.Sprintf("%s %s", en.Codes[i].Code, ctx)), Observed: fmt.Sprint(got), Expected: fmt.Sprint(want)})
	}
	call := func(i int, ctx string, want float64, args ...reflect.Value) {
		*evals++
		got, err := en.Weight(en.Consts[i], args...)
		if err != nil {
			r.Infra(fmt.Sprintf("v%d %s: %v", en.Ver, en.Name, err))
			return
		}
		if got != want {
			fail(i, ctx, got, want)
		}
	}
	switch {
	case en.Ver == 3 && (en.Name == "S" || en.Name == "MS"):
		// scope has no weight; IsChanged is its semantics
		sEn, sVals := enumVals(3, "S")
		for i, c := range en.Codes {
			v := en.Val(en.Consts[i])
			*evals++
			if en.Name == "S" {
				if got := v.MethodByName("IsChanged").Call(nil)[0].Bool(); got != (c.Code == "C") {
					r.Violate(ev.Violation{Kind: "scope-changed", Case: tableCase(en, "IsChanged", c.Code), Observed: fmt.Sprint(got), Expected: fmt.Sprint(c.Code == "C")})
				}
				continue
			}
			for j, sv := range sVals {
				want := c.Code == "C" || (c.Code == "X" && sEn.Codes[j].Code == "C")
				if got := v.MethodByName("IsChanged").Call([]reflect.Value{sv})[0].Bool(); got != want {
					r.Violate(ev.Violation{Kind: "scope-changed", Case: tableCase(en, "IsChanged", c.Code+" with S:"+sEn.Codes[j].Code), Observed: fmt.Sprint(got), Expected: fmt.Sprint(want)})
				}
			}
		}
	case en.Ver == 3 && en.Name == "PR":
		sEn, sVals := enumVals(3, "S")
		for i, c := range en.Codes {
			for j, sv := range sVals {
				w := c.W
				if sEn.Codes[j].Code == "C" {
					w = c.WC
				}
				call(i, "S:"+sEn.Codes[j].Code, specW(w), sv)
			}
		}
	case en.Ver == 3 && en.Name == "MPR":
		msEn, msVals := enumVals(3, "MS")
		sEn, sVals := enumVals(3, "S")
		prEn, prVals := enumVals(3, "PR")
		for i, c := range en.Codes {
			for a, msv := range msVals {
				for b, sv := range sVals {
					changed := msEn.Codes[a].Code == "C" || (msEn.Codes[a].Code == "X" && sEn.Codes[b].Code == "C")
					for d, prv := range prVals {
						src := c
						if c.ND {
							src = prEn.Codes[d]
						}
						w := src.W
						if changed {
							w = src.WC
						}
						call(i, fmt.Sprintf("MS:%s S:%s PR:%s", msEn.Codes[a].Code, sEn.Codes[b].Code, prEn.Codes[d].Code), specW(w), msv, sv, prv)
					}
				}
			}
		}
	case en.Ver == 3 && en.Base != "":
		bEn, bVals := enumVals(3, en.Base)
		for i, c := range en.Codes {
			for j, bv := range bVals {
				w := c.W
				if c.ND {
					w = bEn.Codes[j].W
				}
				call(i, en.Base+":"+bEn.Codes[j].Code, specW(w), bv)
			}
			if !c.ND {
				// a defined Modified value carries its own weight whatever the base metric holds
				for _, odd := range []int{bEn.Unknown, -1, bEn.MaxEnum + 1, 1 << 20} {
					call(i, fmt.Sprintf("%s=%d (not a defined base value)", en.Base, odd), specW(c.W), bEn.Val(odd))
				}
			}
		}
	default:
		for i, c := range en.Codes {
			call(i, "", specW(c.W))
		}
	}
}

func checkVersions(r *ev.Run, evals *int64, others []string) {
	labels := map[string]v3.Version{"3.0": v3.V3_0, "3.1": v3.V3_1}
	for l, want := range labels {
		*evals++
		got, err := v3.GetVersion("CVSS:" + l)
		if err != nil || got != want || got.String() != l {
			r.Violate(ev.Violation{Kind: "version-label", Case: map[string]any{"what": "GetVersion", "argument": "CVSS:" + l}, Observed: fmt.Sprintf("%v (%d) err=%v", got, got, err), Expected: l})
		}
		if want.String() != l {
			r.Violate(ev.Violation{Kind: "version-label", Case: map[string]any{"what": "Version.String", "argument": int(want)}, Observed: want.String(), Expected: l})
		}
		n := v3version.Get(l)
		if n.String() != l || (l == "3.0") != (n == v3version.V3_0) || (l == "3.1") != (n == v3version.V3_1) {
			r.Violate(ev.Violation{Kind: "version-label", Case: map[string]any{"what": "version.Get", "argument": l}, Observed: fmt.Sprintf("%v (%d)", n, n), Expected: l})
		}
	}
	if v3.V3_0 == v3.V3_1 || v3.V3_0 == v3.VUnknown || v3.V3_1 == v3.VUnknown {
		r.Violate(ev.Violation{Kind: "version-constants", Case: map[string]any{"what": "constants"}, Observed: "not distinct", Expected: "three distinct values"})
	}
	extra := []string{"3", "3.", "3.00", "3.10", "03.1", "3.1 ", " 3.1", "2.0", "4.0", "3,1", "３.１", "unknown"}
	for _, s := range append(append([]string{}, others...), extra...) {
		if s == "3.0" || s == "3.1" {
			continue
		}
		*evals++
		if got, err := v3.GetVersion("CVSS:" + s); got != v3.VUnknown && err == nil {
			r.Violate(ev.Violation{Kind: "version-non-label-accepted", Case: map[string]any{"what": "GetVersion", "argument": "CVSS:" + s}, Observed: got.String(), Expected: "unknown"})
		}
		if got := v3version.Get(s); got != v3version.Unknown {
			r.Violate(ev.Violation{Kind: "version-non-label-accepted", Case: map[string]any{"what": "version.Get", "argument": s}, Observed: got.String(), Expected: "unknown"})
		}
	}
	for _, i := range []int{-2, -1, 0, 3, 4, 1 << 20} {
		*evals++
		if s := v3.Version(i).String(); s != "unknown" {
			r.Violate(ev.Violation{Kind: "version-prints", Case: map[string]any{"what": "Version.String", "argument": i}, Observed: s, Expected: "unknown"})
		}
		if s := v3version.Num(i).String(); s != "unknown" {
			r.Violate(ev.Violation{Kind: "version-prints", Case: map[string]any{"what": "version.Num.String", "argument": i}, Observed: s, Expected: "unknown"})
		}
	}
}
