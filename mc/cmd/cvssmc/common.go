package main

import (
	"fmt"
	"math"
	"reflect"
	"regexp"
	"runtime"
	"sort"
	"strconv"
	"strings"
	"sync"
	"sync/atomic"

	"cvssmc/internal/dump"
	"cvssmc/internal/ev"
	"cvssmc/internal/lang"
	"cvssmc/internal/lib"
	"cvssmc/internal/oracle"
	"cvssmc/internal/spec"
)

// props selects which oracles evalDecoded applies (one run serves one property).
type props struct {
	scoreLevel int  // check Score() of the view at this level against the oracle (-1: none)
	grid       bool // C06: grid, format, band at every level
	neutral    bool // C13
	views      bool // C14
	fields     bool // C09
	encode     bool // C10
	topFirst   bool // every query on the higher-level views (and the v3 reports) is made before the lower-level scores are asked
}

var noScore = props{scoreLevel: -1}

// heavy use: 4,200 repetitions of a query on one object (above the thresholds 16, 256, 1000,
// 1024, 2048 and 4096 at which a "hot object" optimisation would plausibly start), on every vector at the base
// decoders and on every 16th vector (by hash of its text) elsewhere
var (
	heavyRounds = 4200
	heavyCases  int64
)

// at most this many objects per run get the heavy-use treatment (the thorough tier decodes tens of
// millions of vectors; the cap keeps its cost at about half a minute)
const heavyCap = 60000

func heavyPick(s string) bool {
	h := uint32(2166136261)
	for i := 0; i < len(s); i++ {
		h = (h ^ uint32(s[i])) * 16777619
	}
	return h%16 == 0
}

// safeParallel runs fn(i) on all cores; a panic inside fn (library code panicking on a case the
// harness considered valid) is recorded as a violation of the running property.
func safeParallel(r *ev.Run, n int, fn func(i int)) {
	w := runtime.NumCPU()
	if w > n {
		w = n
	}
	var wg sync.WaitGroup
	ch := make(chan int, n)
	for i := 0; i < n; i++ {
		ch <- i
	}
	close(ch)
	for k := 0; k < w; k++ {
		wg.Add(1)
		go func() {
			defer wg.Done()
			for i := range ch {
				func() {
					defer func() {
						if x := recover(); x != nil {
							buf := make([]byte, 4096)
							n := runtime.Stack(buf, false)
							r.Violate(ev.Violation{Kind: "panic", Case: map[string]any{"shard": i}, Observed: fmt.Sprintf("panic: %v\n%s", x, buf[:n]), Expected: "no panic"})
						}
					}()
					fn(i)
				}()
			}
		}()
	}
	wg.Wait()
}

var gridRe = regexp.MustCompile(`^[0-9]+(\.[0-9])?$`)

// tenths converts a library score to tenths and reports whether it lies exactly on the grid and
// prints with at most one decimal.
func tenths(score float64) (t int, onGrid bool) {
	t = int(math.Round(score * 10))
	if math.IsNaN(score) || math.IsInf(score, 0) {
		return 0, false
	}
	onGrid = score == float64(t)/10 && gridRe.MatchString(strings.TrimPrefix(strconv.FormatFloat(score, 'f', -1, 64), "-"))
	return
}

func inSet(set []int, t int) bool {
	for _, x := range set {
		if x == t {
			return true
		}
	}
	return false
}

func tenthStr(set []int) string {
	p := []string{}
	for _, x := range set {
		p = append(p, strconv.FormatFloat(float64(x)/10, 'f', -1, 64))
	}
	return strings.Join(p, " or ")
}

// band returns the severity name the specification assigns to a score in tenths.
func band(ver, t int) string {
	if ver == 2 {
		return spec.V2Band(t)
	}
	return spec.V3Band(t)
}

// ---------------------------------------------------------------------------------------------
// token helpers

func idxOf(ver int, name, code string) int {
	m := spec.Find(ver, name)
	for i, c := range m.Codes {
		if c.Code == code {
			return i
		}
	}
	return -1
}

// v3Case converts an accepted token set into oracle indices.
func v3Case(verLabel string, tok map[string]string) oracle.V3Case {
	g := func(n string) int {
		c, ok := tok[n]
		if !ok {
			return 0 // optional metric omitted = X (index 0)
		}
		return idxOf(3, n, c)
	}
	v := 0
	if verLabel == "3.1" {
		v = 1
	}
	return oracle.V3Case{Ver: v, AV: g("AV"), AC: g("AC"), PR: g("PR"), UI: g("UI"), S: g("S"), C: g("C"), I: g("I"), A: g("A"),
		E: g("E"), RL: g("RL"), RC: g("RC"), CR: g("CR"), IR: g("IR"), AR: g("AR"), MAV: g("MAV"), MAC: g("MAC"), MPR: g("MPR"),
		MUI: g("MUI"), MS: g("MS"), MC: g("MC"), MI: g("MI"), MA: g("MA")}
}

// v3Want returns the oracle score in tenths at a level.
func v3Want(c *oracle.V3Case, level int) int {
	o := oracle.GetV3()
	switch level {
	case 0:
		return o.BaseT(c)
	case 1:
		return o.TempT(c)
	}
	return o.EnvT(c)
}

// v2Index converts an accepted v2 token set into oracle indices.
type v2Idx struct {
	bi, ti      int
	envPresent  bool
	cdp, td, ri int
	tempPresent bool
}

func v2Case(tok map[string]string) v2Idx {
	g := func(n string) int { return idxOf(2, n, tok[n]) }
	x := v2Idx{}
	x.bi = ((((g("AV")*3+g("AC"))*3+g("Au"))*3+g("C"))*3+g("I"))*3 + g("A")
	if _, ok := tok["E"]; ok {
		x.tempPresent = true
		x.ti = 1 + (g("E")*5+g("RL"))*4 + g("RC")
	}
	if _, ok := tok["CDP"]; ok {
		x.envPresent = true
		x.cdp, x.td = g("CDP"), g("TD")
		x.ri = (g("CR")*4+g("IR"))*4 + g("AR")
	}
	return x
}

// v2Want returns the admissible set at a level and whether the level is in the exempt
// (specification-negative) region.
func v2Want(x v2Idx, level int, d1 bool) ([]int, bool) {
	o := oracle.GetV2()
	switch level {
	case 0:
		return o.Base[x.bi], false
	case 1:
		return o.TempSet(x.bi, x.ti), false
	}
	return o.EnvSet(x.bi, x.ti, x.envPresent, x.cdp, x.td, x.ri, d1)
}

// ---------------------------------------------------------------------------------------------
// the per-vector evaluation shared by the ENUM D-path and the GRAPH accepting states

type dcase struct {
	ver, level int               // decoder
	s          string            // input text
	tok        map[string]string // tokens written
	verLabel   string            // v3 version label written
}

func (c *dcase) m() map[string]any {
	return map[string]any{"cvss": c.ver, "decoder": spec.LevelNames[c.level], "vector": c.s}
}

func goTest(c *dcase, body string) string {
	pkg := "v3"
	if c.ver == 2 {
		pkg = "v2"
	}
	ctor := []string{"NewBase", "NewTemporal", "NewEnvironmental"}[c.level]
	return fmt.Sprintf("m, err := %s.%s().Decode(%q)\nif err != nil { t.Fatal(err) }\n%s", pkg, ctor, c.s, body)
}

// stats collected by evalDecoded
type enumStats struct {
	att [3][400]atomic.Bool // per level: attained tenths (offset 150)
}

func newStats() *enumStats { return &enumStats{} }

func (s *enumStats) attain(level, t int) {
	t += 150
	if t < 0 || t >= 400 {
		return
	}
	if !s.att[level][t].Load() {
		s.att[level][t].Store(true)
	}
}

func (s *enumStats) report(r *ev.Run, ver int) {
	var attained [3]map[int]bool
	for lv := range attained {
		attained[lv] = map[int]bool{}
		for t := range s.att[lv] {
			if s.att[lv][t].Load() {
				attained[lv][t-150] = true
			}
		}
	}
	for lv := 0; lv < 3; lv++ {
		if len(attained[lv]) == 0 {
			continue
		}
		ks := []int{}
		for k := range attained[lv] {
			ks = append(ks, k)
		}
		sort.Ints(ks)
		r.Set(fmt.Sprintf("v%d_%s_distinct_scores", ver, spec.LevelNames[lv]), int64(len(ks)))
		edges := []int{0, 1, 39, 40, 69, 70, 89, 90, 100}
		hit := []string{}
		for _, e := range edges {
			if attained[lv][e] {
				hit = append(hit, strconv.FormatFloat(float64(e)/10, 'f', -1, 64))
			}
		}
		r.Set(fmt.Sprintf("v%d_%s_band_edges_attained", ver, spec.LevelNames[lv]), strings.Join(hit, ","))
	}
}

// evalDecoded decodes c.s with decoder (c.ver, c.level), which the harness knows to be a valid
// vector with tokens c.tok, and applies the oracles selected by P.  It returns the decoded object.
func evalDecoded(r *ev.Run, P props, st *enumStats, c *dcase) any {
	obj, err, pan := lib.DecodeNew(c.ver, c.level, c.s)
	if pan != "" || err != nil || obj == nil {
		r.Violate(ev.Violation{Kind: "valid-vector-not-decoded", Case: c.m(), Observed: fmt.Sprintf("err=%v panic=%q obj-nil=%v", err, pan, obj == nil), Expected: "object, nil error", GoTest: goTest(c, "")})
		return nil
	}
	var c3 oracle.V3Case
	var c2 v2Idx
	if c.ver == 3 {
		c3 = v3Case(c.verLabel, c.tok)
	} else {
		c2 = v2Case(c.tok)
	}
	want := func(lv int) ([]int, bool) {
		if c.ver == 3 {
			return []int{v3Want(&c3, lv)}, false
		}
		return v2Want(c2, lv, false)
	}
	if P.topFirst {
		for lv := c.level; lv >= 1; lv-- {
			lib.Observe(lib.Sub(obj, lv))
		}
		if c.ver == 3 {
			reportScoreText(obj, c.level)
		}
	}
	var scores [3]float64
	for lv := 0; lv <= c.level; lv++ {
		sub := lib.Sub(obj, lv)
		if lib.IsNil(sub) {
			r.Violate(ev.Violation{Kind: "accessor-nil", Case: c.m(), Observed: fmt.Sprintf("%s view is nil", spec.LevelNames[lv]), Expected: "embedded object"})
			return obj
		}
		sc := lib.Score(sub)
		scores[lv] = sc
		t, on := tenths(sc)
		if st != nil {
			st.attain(lv, t)
		}
		ws, exempt := want(lv)
		if P.scoreLevel == lv {
			if !on || !inSet(ws, t) {
				if !(c.ver == 2 && lv == 2 && knownC05(r, c, c2, t, on)) {
					r.Violate(ev.Violation{Kind: "score", Case: with(c.m(), "level", spec.LevelNames[lv]), Observed: fmt.Sprint(sc), Expected: tenthStr(ws),
						GoTest: goTest(c, fmt.Sprintf("// %s score: specification %s\nt.Log(m%s.Score())", spec.LevelNames[lv], tenthStr(ws), accessor(c.level, lv)))})
				}
			}
			if c.ver == 3 && lv == 0 {
				zero := c.tok["C"] == "N" && c.tok["I"] == "N" && c.tok["A"] == "N"
				if (sc == 0) != zero {
					r.Violate(ev.Violation{Kind: "zero-iff-no-impact", Case: c.m(), Observed: fmt.Sprint(sc), Expected: fmt.Sprintf("score==0 is %v", zero)})
				}
			}
		}
		if P.grid {
			switch {
			case exempt:
				// v2 environmental, specification-negative region: sign and band unspecified, but
				// the value must still be a tenth
				if math.Abs(sc*10-math.Round(sc*10)) > 1e-9 {
					r.Violate(ev.Violation{Kind: "off-grid", Case: with(c.m(), "level", spec.LevelNames[lv]), Observed: fmt.Sprint(sc), Expected: "a multiple of 0.1"})
				}
			case !on || t < 0 || t > 100:
				r.Violate(ev.Violation{Kind: "off-grid", Case: with(c.m(), "level", spec.LevelNames[lv]), Observed: strconv.FormatFloat(sc, 'f', -1, 64), Expected: "a multiple of 0.1 in [0,10] printing with at most one decimal"})
			default:
				sev, _ := lib.Severity(sub)
				if sev != band(c.ver, t) {
					r.Violate(ev.Violation{Kind: "severity-band", Case: with(c.m(), "level", spec.LevelNames[lv]), Observed: fmt.Sprintf("score %v severity %s", sc, sev), Expected: band(c.ver, t),
						GoTest: goTest(c, fmt.Sprintf("t.Log(m%s.Score(), m%s.Severity()) // want %s", accessor(c.level, lv), accessor(c.level, lv), band(c.ver, t)))})
				}
			}
		}
	}
	if c.ver == 3 && P.scoreLevel >= 0 && P.scoreLevel <= c.level {
		// the same score through the report view of the object's own level
		if txt, ok := reportScoreText(obj, P.scoreLevel); ok {
			ws, _ := want(P.scoreLevel)
			wantTxt := strconv.FormatFloat(float64(ws[0])/10, 'f', -1, 64)
			if txt != wantTxt {
				r.Violate(ev.Violation{Kind: "score-in-report", Case: with(c.m(), "level", spec.LevelNames[P.scoreLevel]), Observed: txt, Expected: wantTxt + "  (decimal rendering of the specification's score, in the report built from the decoded object)"})
			}
		}
	}
	if c.ver == 3 && P.grid {
		// C06: the score fields of the reports are the decimal renderings of the same scores
		for lv := 0; lv <= c.level; lv++ {
			if txt, ok := reportScoreText(obj, lv); ok {
				if wantTxt := strconv.FormatFloat(scores[lv], 'f', -1, 64); txt != wantTxt || !gridRe.MatchString(txt) {
					r.Violate(ev.Violation{Kind: "score-in-report", Case: with(c.m(), "level", spec.LevelNames[lv]), Observed: fmt.Sprintf("%q", txt), Expected: fmt.Sprintf("%q (the decimal rendering of Score() = %v)", wantTxt, scores[lv])})
				}
			}
		}
	}
	if (P.scoreLevel >= 0 || P.grid || P.neutral) && (c.level == 0 || heavyPick(c.s)) && atomic.LoadInt64(&heavyCases) < heavyCap {
		// heavy use (round 6: memos that start only after 16 / 1000 / 1024 calls on one object): the
		// same queries 1,100 more times on this object; every answer must stay what it was
		for lv := c.level; lv >= 0; lv-- {
			sub := lib.Sub(obj, lv)
			last := scores[lv]
			sev0, _ := lib.Severity(sub)
			sev := sev0
			for i := 0; i < heavyRounds; i++ {
				last = lib.Score(sub)
				sev, _ = lib.Severity(sub)
			}
			if sev != sev0 {
				r.Violate(ev.Violation{Kind: "severity-changes-under-repetition", Case: with(c.m(), "level", spec.LevelNames[lv]), Observed: fmt.Sprintf("%v after %d further Severity() calls on the same object", sev, heavyRounds), Expected: fmt.Sprintf("%v, what the first call returned", sev0)})
				break
			}
			if last != scores[lv] && !(math.IsNaN(last) && math.IsNaN(scores[lv])) {
				r.Violate(ev.Violation{Kind: "score-changes-under-repetition", Case: with(c.m(), "level", spec.LevelNames[lv]), Observed: fmt.Sprintf("%v after %d further Score() calls on the same object", last, heavyRounds), Expected: fmt.Sprintf("%v, what the first call returned", scores[lv]),
					GoTest: goTest(c, fmt.Sprintf("first := m%s.Score()\nfor i := 0; i < %d; i++ { m%s.Score() }\nt.Log(first, m%s.Score())", accessor(c.level, lv), heavyRounds, accessor(c.level, lv), accessor(c.level, lv)))})
				break
			}
		}
		atomic.AddInt64(&heavyCases, 1)
	}
	if P.neutral {
		checkNeutral(r, c, scores)
	}
	if P.views {
		checkViews(r, c, obj)
		checkViewsTopFirst(r, c)
	}
	if P.fields {
		checkFields(r, c, obj)
		// ... and still holds them after every query and (v3) after a report was built from it
		// (round 4, C09-B-r4: report construction that writes the Modified metrics into the base)
		for lv := c.level; lv >= 0; lv-- {
			lib.Observe(lib.Sub(obj, lv))
		}
		if c.ver == 3 {
			reportScoreText(obj, c.level)
		}
		checkFieldValues(r, c, obj, "after every query and a report built from the object")
	}
	if P.encode {
		checkEncode(r, c, obj)
	}
	return obj
}

func accessor(own, lv int) string {
	if own == lv {
		return ""
	}
	if lv == 0 {
		return ".BaseMetrics()"
	}
	return ".TemporalMetrics()"
}

func with(m map[string]any, k string, v any) map[string]any {
	m[k] = v
	return m
}

// checkNeutral: C13 relations between the scores of one vector.
func checkNeutral(r *ev.Run, c *dcase, sc [3]float64) {
	nd := func(level int) bool { // all metrics of the level Not Defined or absent
		for _, m := range spec.At(c.ver, level) {
			if code, ok := c.tok[m.Name]; ok && code != m.NDCode() {
				return false
			}
		}
		return true
	}
	if c.level >= 1 {
		if nd(1) && sc[1] != sc[0] {
			r.Violate(ev.Violation{Kind: "temporal-not-neutral", Case: c.m(), Observed: fmt.Sprintf("temporal %v base %v", sc[1], sc[0]), Expected: "equal (E, RL, RC all Not Defined)"})
		}
		if sc[1] > sc[0] {
			r.Violate(ev.Violation{Kind: "temporal-exceeds-base", Case: c.m(), Observed: fmt.Sprintf("temporal %v base %v", sc[1], sc[0]), Expected: "temporal <= base"})
		}
	}
	if c.level >= 2 {
		if c.ver == 3 && nd(2) && !(c.verLabel == "3.1" && c.tok["S"] == "C") && sc[2] != sc[1] {
			r.Violate(ev.Violation{Kind: "environmental-not-neutral", Case: c.m(), Observed: fmt.Sprintf("environmental %v temporal %v", sc[2], sc[1]), Expected: "equal (all environmental metrics Not Defined)"})
		}
		if c.ver == 2 && c.tok["TD"] == "N" && sc[2] != 0 {
			r.Violate(ev.Violation{Kind: "td-none-not-zero", Case: c.m(), Observed: fmt.Sprint(sc[2]), Expected: "0 (Target Distribution None)"})
		}
	}
}

// observables renders everything a user can observe of an object at its own level.
func observables(o any) string {
	ob := lib.Observe(o)
	ver, level := lib.VerLevel(o)
	var b strings.Builder
	b.WriteString(ob.String())
	for _, m := range spec.UpTo(ver, level) {
		v, ok := lib.Field(o, m.Name)
		fmt.Fprintf(&b, " %s=%d/%v", m.Name, v, ok)
	}
	if ver == 3 {
		b.WriteString(" Ver=" + lib.V3Ver(o))
	}
	return b.String()
}

// checkViews: C14 — embedded views equal independent lower-level decodes of the projection.
func checkViews(r *ev.Run, c *dcase, obj any) {
	for lv := 0; lv < c.level; lv++ {
		view := lib.Sub(obj, lv)
		if view != lib.Sub(obj, lv) || view != lib.SubField(obj, lv) {
			r.Violate(ev.Violation{Kind: "accessor-not-stable", Case: c.m(), Observed: "accessor returned different pointers", Expected: "the embedded object"})
		}
		ptok := lang.Project(c.ver, lv, c.tok)
		ps := lang.Canonical(c.ver, lv, c.verLabel, ptok)
		if c.ver == 3 {
			// write only what was written (no explicit X) so that the projection is a plain sub-vector
			ps = canonicalWritten(3, lv, c.verLabel, ptok)
		}
		ind, err, pan := lib.DecodeNew(c.ver, lv, ps)
		if err != nil || pan != "" || ind == nil {
			r.Violate(ev.Violation{Kind: "projection-not-decoded", Case: with(c.m(), "projection", ps), Observed: fmt.Sprintf("err=%v panic=%q", err, pan), Expected: "accepted"})
			continue
		}
		a, b := lib.Observe(view), lib.Observe(ind)
		if a != b {
			r.Violate(ev.Violation{Kind: "view-differs", Case: with(c.m(), "projection", ps), Observed: a.String(), Expected: b.String(),
				GoTest: goTest(c, fmt.Sprintf("// compare m%s with an independent decode of %q", accessor(c.level, lv), ps))})
		}
		if da, db := dump.Of(view), dump.Of(ind); da != db {
			r.Violate(ev.Violation{Kind: "view-state-differs", Case: with(c.m(), "projection", ps), Observed: da, Expected: db})
		}
	}
}

// checkViewsTopFirst: the same comparison on a second fresh decode whose top-level object is
// queried (score, severity, encoding) before any view is looked at.
func checkViewsTopFirst(r *ev.Run, c *dcase) {
	obj, err, pan := lib.DecodeNew(c.ver, c.level, c.s)
	if err != nil || pan != "" || obj == nil {
		return
	}
	top := lib.Observe(obj)
	for lv := c.level - 1; lv >= 0; lv-- {
		view := lib.Sub(obj, lv)
		ptok := lang.Project(c.ver, lv, c.tok)
		ps := canonicalWritten(c.ver, lv, c.verLabel, ptok)
		ind, err, pan := lib.DecodeNew(c.ver, lv, ps)
		if err != nil || pan != "" || ind == nil {
			continue
		}
		if a, b := lib.Observe(view), lib.Observe(ind); a != b {
			r.Violate(ev.Violation{Kind: "view-differs-after-top-level-queries", Case: with(c.m(), "projection", ps), Observed: a.String(), Expected: b.String(),
				GoTest: goTest(c, fmt.Sprintf("m.Score(); m.Severity(); m.Encode() // then compare m%s with an independent decode of %q", accessor(c.level, lv), ps))})
		}
	}
	if again := lib.Observe(obj); again != top {
		r.Violate(ev.Violation{Kind: "top-level-changes-after-view-queries", Case: c.m(), Observed: again.String(), Expected: top.String()})
	}
}

// canonicalWritten renders tokens in canonical order without adding Not-Defined tokens.
func canonicalWritten(ver, level int, verLabel string, tok map[string]string) string {
	parts := []string{}
	if ver == 3 {
		parts = append(parts, "CVSS:"+verLabel)
	}
	for _, m := range spec.UpTo(ver, level) {
		if code, ok := tok[m.Name]; ok {
			parts = append(parts, m.Name+":"+code)
		}
	}
	return strings.Join(parts, "/")
}

// checkFields: C09 — every exported field equals the written value; unwritten = Not Defined.
func checkFields(r *ev.Run, c *dcase, obj any) {
	checkFieldValues(r, c, obj, "")
	checkFieldsRest(r, c, obj)
}

func checkFieldValues(r *ev.Run, c *dcase, obj any, when string) {
	cm := func() map[string]any {
		m := c.m()
		if when != "" {
			m["when"] = when
		}
		return m
	}
	for _, m := range spec.UpTo(c.ver, c.level) {
		en := lib.EnumOf(c.ver, m.Name)
		got, ok := lib.Field(obj, m.Name)
		if !ok {
			r.Violate(ev.Violation{Kind: "field-unreachable", Case: with(cm(), "field", m.Name), Observed: "no such field", Expected: "exported field"})
			continue
		}
		code, written := c.tok[m.Name]
		var want int
		switch {
		case written:
			want, _ = en.ConstOf(code)
		case c.ver == 3:
			want, _ = en.ConstOf(m.NDCode())
		default:
			continue // v2: group absent, checked through IsEmpty below
		}
		if got != want {
			r.Violate(ev.Violation{Kind: "field-value", Case: with(cm(), "field", m.Name), Observed: fmt.Sprintf("%d (prints %q)", got, en.Str(got)), Expected: fmt.Sprintf("%d (the constant for code %q)", want, code),
				GoTest: goTest(c, fmt.Sprintf("t.Log(m.%s) // want the constant for %q", m.Name, code))})
		}
		if written && en.Str(got) != code {
			r.Violate(ev.Violation{Kind: "field-prints-other-code", Case: with(cm(), "field", m.Name), Observed: en.Str(got), Expected: code})
		}
	}
}

func checkFieldsRest(r *ev.Run, c *dcase, obj any) {
	if c.ver == 3 {
		if lib.V3Ver(obj) != c.verLabel {
			r.Violate(ev.Violation{Kind: "version-field", Case: c.m(), Observed: lib.V3Ver(obj), Expected: c.verLabel})
		}
		// writing X explicitly is indistinguishable from omitting the metric: decode the twin with
		// every omitted temporal/environmental metric of the level written as X
		twin := copyTok(c.tok)
		omitted := 0
		for _, m := range spec.UpTo(3, c.level) {
			if _, ok := twin[m.Name]; !ok && m.Level > 0 {
				twin[m.Name] = m.NDCode()
				omitted++
			}
		}
		if omitted > 0 {
			ts := canonicalWritten(3, c.level, c.verLabel, twin)
			to, err, pan := lib.DecodeNew(3, c.level, ts)
			if err != nil || pan != "" || to == nil {
				r.Violate(ev.Violation{Kind: "explicit-X-twin-not-decoded", Case: with(c.m(), "twin", ts), Observed: fmt.Sprintf("err=%v panic=%q", err, pan), Expected: "accepted"})
			} else if a, b := observables(obj), observables(to); a != b {
				r.Violate(ev.Violation{Kind: "explicit-X-differs-from-omitted", Case: with(c.m(), "twin", ts), Observed: a, Expected: b + "  (the same vector with the omitted metrics written as X)"})
			}
		}
	} else {
		for lv := 1; lv <= c.level; lv++ {
			if got, want := lib.IsEmpty(obj, lv), !lang.GroupPresent(c.tok, lv); got != want {
				r.Violate(ev.Violation{Kind: "group-emptiness", Case: with(c.m(), "group", spec.LevelNames[lv]), Observed: fmt.Sprint(got), Expected: fmt.Sprint(want)})
			}
		}
	}
}

// checkEncode: C10 — canonical encoding, String()==Encode(), decode(encode) is the identity.
func checkEncode(r *ev.Run, c *dcase, obj any) {
	ob := lib.Observe(obj)
	want := lang.Canonical(c.ver, c.level, c.verLabel, c.tok)
	if ob.EncErr != "nil" || ob.Enc != want {
		r.Violate(ev.Violation{Kind: "encoding", Case: c.m(), Observed: fmt.Sprintf("%q err=%s", ob.Enc, ob.EncErr), Expected: want,
			GoTest: goTest(c, fmt.Sprintf("s, err := m.Encode(); t.Log(s, err) // want %q", want))})
		return
	}
	if c.ver == 2 && ob.Enc != c.s {
		r.Violate(ev.Violation{Kind: "v2-encoding-not-input", Case: c.m(), Observed: ob.Enc, Expected: c.s})
	}
	if ob.Str != ob.Enc {
		r.Violate(ev.Violation{Kind: "string-differs-from-encode", Case: c.m(), Observed: ob.Str, Expected: ob.Enc})
	}
	again, err, pan := lib.DecodeNew(c.ver, c.level, ob.Enc)
	if err != nil || pan != "" || again == nil {
		r.Violate(ev.Violation{Kind: "encoding-not-decodable", Case: with(c.m(), "encoding", ob.Enc), Observed: fmt.Sprintf("err=%v panic=%q", err, pan), Expected: "accepted"})
		return
	}
	if a, b := observables(obj), observables(again); a != b {
		r.Violate(ev.Violation{Kind: "decode-encode-decode", Case: with(c.m(), "encoding", ob.Enc), Observed: b, Expected: a})
	}
}

// ---------------------------------------------------------------------------------------------
// score sequences: short histories on one object that end in a score query.  The scoring
// properties quantify over vectors, and also name "Score() of a value whose exported fields are
// set directly"; an object that remembers something from an earlier query, an earlier decode or
// an earlier field value answers a later query wrongly although every fresh decode is right.

func scoreBackgrounds(ver int) []struct {
	ver string
	tok map[string]string
} {
	if ver == 3 {
		return reportBackgrounds()
	}
	return []struct {
		ver string
		tok map[string]string
	}{
		{"", map[string]string{"AV": "N", "AC": "L", "Au": "N", "C": "P", "I": "C", "A": "N", "E": "F", "RL": "OF", "RC": "C", "CDP": "LM", "TD": "M", "CR": "H", "IR": "M", "AR": "L"}},
		{"", map[string]string{"AV": "L", "AC": "H", "Au": "M", "C": "C", "I": "N", "A": "P", "E": "POC", "RL": "W", "RC": "UR", "CDP": "H", "TD": "H", "CR": "L", "IR": "H", "AR": "ND"}},
		{"", map[string]string{"AV": "A", "AC": "M", "Au": "S", "C": "C", "I": "C", "A": "C", "E": "U", "RL": "U", "RC": "UC", "CDP": "N", "TD": "L", "CR": "M", "IR": "ND", "AR": "M"}},
	}
}

// checkScoreOf compares the score of obj's view at lv with the oracle for the token set tok.
func checkScoreOf(r *ev.Run, ver, level, lv int, verLabel string, tok map[string]string, obj any, history []string) {
	sub := lib.Sub(obj, lv)
	var sc float64
	sev := ""
	pan := safeRun(func() string {
		sev, _ = lib.Severity(sub) // severity first: it must not answer from an older score
		sc = lib.Score(sub)
		return ""
	})
	cs := map[string]any{"cvss": ver, "decoder": spec.LevelNames[level], "level": spec.LevelNames[lv], "history": append(append([]string{}, history...), "Severity()"), "object_now_holds": canonicalWritten(ver, level, verLabel, tok)}
	if pan != "" {
		r.Violate(ev.Violation{Kind: "score-panics", Case: cs, Observed: pan, Expected: "a score"})
		return
	}
	t, on := tenths(sc)
	var ws []int
	if ver == 3 {
		c3 := v3Case(verLabel, tok)
		ws = []int{v3Want(&c3, lv)}
	} else {
		c2 := v2Case(tok)
		ws, _ = v2Want(c2, lv, false)
		if (!on || !inSet(ws, t)) && lv == 2 {
			c := &dcase{ver: 2, level: level, s: canonicalWritten(2, level, "", tok), tok: tok}
			if knownC05(r, c, c2, t, on) {
				return
			}
		}
	}
	if !on || !inSet(ws, t) {
		r.Violate(ev.Violation{Kind: "score-after-history", Case: cs, Observed: fmt.Sprint(sc), Expected: tenthStr(ws) + "  (the specification's score of what the object holds now)"})
		return
	}
	if t >= 0 && t <= 100 && sev != band(ver, t) {
		r.Violate(ev.Violation{Kind: "severity-after-history", Case: cs, Observed: fmt.Sprintf("severity %s (asked before the score), score %v", sev, sc), Expected: band(ver, t)})
	}
}

// fieldBuilt returns a constructor result whose exported fields were assigned one by one (never
// decoded), holding tok.
func fieldBuilt(ver, level int, verLabel string, tok map[string]string) any {
	o := lib.New(ver, level)
	if ver == 3 {
		v := 1
		if verLabel == "3.1" {
			v = 2
		}
		lib.SetV3Ver(o, v)
	}
	for _, m := range spec.UpTo(ver, level) {
		code, ok := tok[m.Name]
		if !ok {
			continue
		}
		k, _ := lib.EnumOf(ver, m.Name).ConstOf(code)
		lib.SetField(o, m.Name, k)
	}
	return o
}

func scoreSequences(r *ev.Run, ver, lv int) {
	var n int64
	bgs := scoreBackgrounds(ver)
	for level := lv; level < 3; level++ {
		for bi, bg := range bgs {
			tok0 := lang.Project(ver, level, bg.tok)
			s0 := canonicalWritten(ver, level, bg.ver, tok0)
			fresh := func() any {
				o, _, _ := lib.DecodeNew(ver, level, s0)
				return o
			}
			if fresh() == nil {
				r.Violate(ev.Violation{Kind: "valid-vector-not-decoded", Case: map[string]any{"cvss": ver, "vector": s0}, Observed: "rejected", Expected: "accepted"})
				continue
			}
			// (a) query, assign one field, query again — for every metric and every alternative value
			for _, m := range spec.UpTo(ver, level) {
				en := lib.EnumOf(ver, m.Name)
				for ci, c := range m.Codes {
					if c.Code == tok0[m.Name] {
						continue
					}
					o := fresh()
					for q := 0; q <= level; q++ {
						lib.Score(lib.Sub(o, q))
						lib.Severity(lib.Sub(o, q))
					}
					lib.SetField(o, m.Name, en.Consts[ci])
					t := copyTok(tok0)
					t[m.Name] = c.Code
					checkScoreOf(r, ver, level, lv, bg.ver, t, o, []string{"Decode(" + s0 + ")", "Score() and Severity() of every view", fmt.Sprintf("field %s assigned the value for code %s", m.Name, c.Code), "Score()"})
					n++
					// the same with the higher views asked again after the assignment and before the
					// checked level (round 6, C01-B-r6: an environmental Score() that writes the Modified
					// metrics through an alias into the base metrics once it was scored without them)
					if lv < level {
						o = fresh()
						for q := 0; q <= level; q++ {
							lib.Score(lib.Sub(o, q))
						}
						lib.SetField(o, m.Name, en.Consts[ci])
						for q := level; q > lv; q-- {
							lib.Score(lib.Sub(o, q))
							lib.Severity(lib.Sub(o, q))
							lib.Observe(lib.Sub(o, q))
						}
						checkScoreOf(r, ver, level, lv, bg.ver, t, o, []string{"Decode(" + s0 + ")", "Score() of every view", fmt.Sprintf("field %s assigned the value for code %s", m.Name, c.Code), "Score(), Severity(), GetError(), Encode() of the higher views", "Score()"})
						n++
					}
					// heavy use before the assignment (round 6: a memo that only starts after 16 / 1000 /
					// 1024 identical queries and whose key misses something)
					if ci == len(m.Codes)-1 || (ci == len(m.Codes)-2 && m.Codes[len(m.Codes)-1].Code == tok0[m.Name]) {
						o = fresh()
						for i := 0; i < heavyRounds; i++ {
							for q := 0; q <= level; q++ {
								lib.Score(lib.Sub(o, q))
								lib.Severity(lib.Sub(o, q))
							}
						}
						lib.SetField(o, m.Name, en.Consts[ci])
						checkScoreOf(r, ver, level, lv, bg.ver, t, o, []string{"Decode(" + s0 + ")", fmt.Sprintf("Score() and Severity() of every view, %d times", heavyRounds), fmt.Sprintf("field %s assigned the value for code %s", m.Name, c.Code), "Score()"})
						n++
					}
				}
			}
			// (a') the same on an object that was never decoded: a constructor result whose exported
			// fields were assigned (v3 only: a v2 object's groups exist only through Decode)
			if ver == 3 {
				for _, m := range spec.UpTo(ver, level) {
					en := lib.EnumOf(ver, m.Name)
					for ci, c := range m.Codes {
						if c.Code == tok0[m.Name] || (m.Level == 0 && c.ND) {
							continue
						}
						full := copyTok(tok0)
						for _, mm := range spec.UpTo(ver, level) {
							if _, ok := full[mm.Name]; !ok {
								full[mm.Name] = mm.NDCode()
							}
						}
						o := fieldBuilt(ver, level, bg.ver, full)
						for q := 0; q <= level; q++ {
							lib.Score(lib.Sub(o, q))
						}
						lib.SetField(o, m.Name, en.Consts[ci])
						t := copyTok(full)
						t[m.Name] = c.Code
						checkScoreOf(r, ver, level, lv, bg.ver, t, o, []string{"constructor result with every exported field assigned to " + canonicalWritten(ver, level, bg.ver, full), "Score() of every view", fmt.Sprintf("field %s assigned the value for code %s", m.Name, c.Code)})
						n++
						break
					}
				}
			}
			// (e) exported optional fields assigned before Decode; the vector spells those metrics out as Not Defined
			for _, m := range spec.UpTo(ver, level) {
				if m.Level == 0 {
					continue
				}
				en := lib.EnumOf(ver, m.Name)
				d := lib.New(ver, level)
				pre := 0
				for ci, c := range m.Codes {
					if !c.ND {
						pre = en.Consts[ci]
					}
				}
				lib.SetField(d, m.Name, pre)
				t := copyTok(tok0)
				if ver == 2 && !lang.GroupPresent(t, m.Level) {
					continue
				}
				t[m.Name] = m.NDCode()
				st := canonicalWritten(ver, level, bg.ver, t)
				o, err, _ := lib.Decode(d, st)
				if err != nil || o == nil {
					continue
				}
				checkScoreOf(r, ver, level, lv, bg.ver, t, o, []string{fmt.Sprintf("constructor result, field %s assigned a defined value", m.Name), "Decode(" + st + ") on it"})
				n++
			}
			// (h) the view at the scored level taken from the constructor result, a rejected Decode, the
			// accepted Decode, then the score through the OLD view (round 5, C02-A-r5: a Decode that
			// restores a backup copy of the receiver after a failure orphans views taken before)
			if lv < level {
				for _, rej := range []string{"CVSS:2.0/AV:N/AC:L", "", "CVSS:9/", "garbage"} {
					d := lib.New(ver, level)
					old := lib.Sub(d, lv)
					if o, _, _ := lib.Decode(d, rej); o != nil {
						continue
					}
					if o, err, _ := lib.Decode(d, s0); err != nil || o == nil {
						continue
					}
					checkScoreOf(r, ver, lv, lv, bg.ver, lang.Project(ver, lv, tok0), old, []string{"d := " + spec.LevelNames[level] + " constructor result", "v := the " + spec.LevelNames[lv] + " view of d", "d.Decode(" + rej + "), rejected", "d.Decode(" + s0 + ")", "score of v"})
					n++
				}
			}
			// (g) every observer (and the views' observers) on the constructor result, then Decode on it;
			// and the same with the base fields assigned first
			for variant := 0; variant < 2; variant++ {
				d := lib.New(ver, level)
				hist := []string{"constructor result"}
				if variant == 1 {
					for _, m := range spec.UpTo(ver, 0) {
						k, _ := lib.EnumOf(ver, m.Name).ConstOf(tok0[m.Name])
						lib.SetField(d, m.Name, k)
					}
					hist = append(hist, "base metric fields assigned")
				}
				for q := 0; q <= level; q++ {
					lib.Observe(lib.Sub(d, q))
					if ver == 2 && q >= 1 {
						safeRun(func() string { return fmt.Sprint(lib.IsEmpty(lib.Sub(d, q), q)) })
					}
				}
				hist = append(hist, "Score, Severity, GetError, Encode, String, IsEmpty of every view", "Decode("+s0+") on the same object")
				o, err, _ := lib.Decode(d, s0)
				if err == nil && o != nil {
					checkScoreOf(r, ver, level, lv, bg.ver, tok0, o, hist)
					n++
				}
			}
			// (b) v3: query, assign the other version, query again
			if ver == 3 {
				for _, rounds := range []int{1, heavyRounds} {
					o := fresh()
					for i := 0; i < rounds; i++ {
						for q := level; q >= 0; q-- {
							lib.Score(lib.Sub(o, q))
							lib.Severity(lib.Sub(o, q))
						}
					}
					other, ov := "3.0", 1
					if bg.ver == "3.0" {
						other, ov = "3.1", 2
					}
					lib.SetV3Ver(o, ov)
					checkScoreOf(r, ver, level, lv, other, tok0, o, []string{"Decode(" + s0 + ")", fmt.Sprintf("Score() and Severity() of every view, %d times", rounds), "Ver assigned " + other, "Score()"})
					n++
				}
			}
			// (c) query, replace the embedded lower-level object by that of another decoded vector, query again
			if level >= 1 {
				ob := bgs[(bi+1)%len(bgs)]
				otok := lang.Project(ver, level, ob.tok)
				for _, rounds := range []int{0, 1, heavyRounds} {
					o2, _, _ := lib.DecodeNew(ver, level, canonicalWritten(ver, level, ob.ver, otok))
					o := fresh()
					if o2 == nil {
						continue
					}
					for i := 0; i < rounds; i++ {
						lib.Score(o)
						lib.Severity(o)
						for q := 0; q < level; q++ {
							lib.Score(lib.Sub(o, q))
							lib.Severity(lib.Sub(o, q))
						}
					}
					replaceEmbedded(o, o2)
					t := copyTok(tok0)
					for _, m := range spec.UpTo(ver, level-1) {
						delete(t, m.Name)
						if c, ok := otok[m.Name]; ok {
							t[m.Name] = c
						}
					}
					checkScoreOf(r, ver, level, lv, ob.ver, t, o, []string{"Decode(" + s0 + ")", fmt.Sprintf("Score() and Severity() of every view, %d times", rounds), "embedded lower-level object replaced by that of another decoded vector", "Score()"})
					n++
				}
				// (c') the embedded object of the embedded object replaced (em.Temporal.Base = other.Base)
				if level == 2 {
					for _, rounds := range []int{0, 1} {
						o2, _, _ := lib.DecodeNew(ver, 0, canonicalWritten(ver, 0, ob.ver, lang.Project(ver, 0, ob.tok)))
						o := fresh()
						if o2 == nil {
							continue
						}
						for i := 0; i < rounds; i++ {
							lib.Observe(o)
							lib.Score(lib.Sub(o, 1))
							lib.Score(lib.Sub(o, 0))
						}
						setEmbeddedBase(lib.SubField(o, 1), o2)
						t := copyTok(tok0)
						for _, m := range spec.UpTo(ver, 0) {
							t[m.Name] = ob.tok[m.Name]
						}
						checkScoreOf(r, ver, level, lv, ob.ver, t, o, []string{"Decode(" + s0 + ")", fmt.Sprintf("every query, %d times", rounds), "the base object inside the embedded temporal object replaced by a separately decoded base object", "Score()"})
						n++
					}
				}
				// (c'') v2: the replacing lower-level object differs in which groups it has (round 6,
				// C05-B-r6: a 'has a temporal group' flag kept on the wrong object)
				if ver == 2 {
					for _, withGroup := range []bool{false, true} {
						// o: base (+ environmental group); the temporal group comes and goes with the replacement
						own := lang.Project(2, 0, tok0)
						if level == 2 {
							for _, m := range spec.At(2, 2) {
								own[m.Name] = tok0[m.Name]
							}
						}
						if !withGroup {
							for _, m := range spec.At(2, 1) {
								own[m.Name] = tok0[m.Name]
							}
						}
						so := canonicalWritten(2, level, "", own)
						o, _, _ := lib.DecodeNew(2, level, so)
						rtok := lang.Project(2, 0, ob.tok)
						if withGroup {
							for _, m := range spec.At(2, 1) {
								rtok[m.Name] = ob.tok[m.Name]
							}
						}
						sr := canonicalWritten(2, level-1, "", lang.Project(2, level-1, rtok))
						o2, _, _ := lib.DecodeNew(2, level-1, sr)
						if o == nil || o2 == nil || level != 2 {
							continue
						}
						lib.Observe(o)
						setEmbedded(o, o2)
						t := copyTok(rtok)
						for _, m := range spec.At(2, 2) {
							t[m.Name] = tok0[m.Name]
						}
						checkScoreOf(r, ver, level, lv, "", t, o, []string{"e := Decode(" + so + ")", "every query on e", "t := a temporal decoder's Decode(" + sr + ")", "e.Temporal = t", "Score()"})
						n++
					}
				}
			}
			// (d) a decoder that failed before recording anything, used again: whatever it accepts scores right
			for _, bad := range []string{"", "/", "XX:Y", "n/a", "CVSS:3.1/XX:Y", "CVSS:4.0/AV:N"} {
				d := lib.New(ver, level)
				lib.Decode(d, bad)
				o, err, _ := lib.Decode(d, s0)
				if err != nil || o == nil {
					continue
				}
				checkScoreOf(r, ver, level, lv, bg.ver, tok0, o, []string{fmt.Sprintf("Decode(%q) fails", bad), "Decode(" + s0 + ") on the same decoder succeeds", "Score()"})
				n++
			}
		}
	}
	// (f) decoding through a nil receiver after nil-receiver decodes that failed half-way (a pooled
	// or cached internal decoder must not leak what the failed input had already written)
	for level := lv; level < 3; level++ {
		for _, bg := range bgs {
			full := lang.Project(ver, level, bg.tok)
			var fails []string
			for _, bad := range []string{"AV:Q", "ZZ:N", "A:"} {
				fails = append(fails, canonicalWritten(ver, level, bg.ver, full)+"/"+bad)
			}
			for _, m := range spec.UpTo(ver, level) {
				if m.Level == 0 {
					continue
				}
				t := copyTok(full)
				t[m.Name] = "Q" // an invalid value for one optional metric, after the others were accepted
				fails = append(fails, canonicalWritten(ver, level, bg.ver, t))
			}
			// valid vectors that omit optional metrics (v2: whole groups)
			var valids []map[string]string
			valids = append(valids, lang.Project(ver, 0, full))
			if level == 2 {
				valids = append(valids, lang.Project(ver, 1, full))
			}
			valids = append(valids, full)
			for _, f := range fails {
				if _, err, _ := lib.Decode(lib.Nil(ver, level), f); err == nil {
					continue
				}
				for _, vt := range valids {
					sv := canonicalWritten(ver, level, bg.ver, vt)
					o, err, pan := lib.Decode(lib.Nil(ver, level), sv)
					n++
					if pan != "" || err != nil || o == nil {
						r.Violate(ev.Violation{Kind: "valid-vector-not-decoded", Case: map[string]any{"cvss": ver, "decoder": spec.LevelNames[level], "history": []string{"(nil).Decode(" + f + ") fails", "(nil).Decode(" + sv + ")"}}, Observed: fmt.Sprintf("err=%v panic=%q", err, pan), Expected: "accepted"})
						continue
					}
					checkScoreOf(r, ver, level, lv, bg.ver, vt, o, []string{"(nil).Decode(" + f + ") fails", "(nil).Decode(" + sv + ")"})
					// ... and once more after further nil-receiver decodes of ANOTHER vector at every level
					// (round 5, C04-A-r5: the throw-away object of a rejected nil-receiver decode and its
					// embedded objects end up on two spare lists, so two later results share one of them)
					other := scoreBackgrounds(ver)[0]
					for _, cand := range scoreBackgrounds(ver) {
						if canonicalWritten(ver, 0, cand.ver, lang.Project(ver, 0, cand.tok)) != canonicalWritten(ver, 0, bg.ver, lang.Project(ver, 0, bg.tok)) {
							other = cand
							break
						}
					}
					hist := []string{"(nil).Decode(" + f + ") fails", "o := (nil).Decode(" + sv + ")"}
					for l2 := 0; l2 < 3; l2++ {
						s2 := canonicalWritten(ver, l2, other.ver, lang.Project(ver, l2, other.tok))
						lib.Decode(lib.Nil(ver, l2), s2)
						hist = append(hist, "(nil "+spec.LevelNames[l2]+").Decode("+s2+")")
					}
					checkScoreOf(r, ver, level, lv, bg.ver, vt, o, append(hist, "score of o"))
					n++
				}
			}
		}
	}
	r.Add("score_sequences", n)
	r.Add("evaluations", n)
}

// setEmbedded makes dst's embedded lower-level pointer point to src itself.
func setEmbedded(dst, src any) {
	dv := reflect.ValueOf(dst).Elem()
	for i := 0; i < dv.NumField(); i++ {
		f := dv.Type().Field(i)
		if f.Anonymous && f.Type.Kind() == reflect.Ptr && f.Type == reflect.TypeOf(src) {
			dv.Field(i).Set(reflect.ValueOf(src))
			return
		}
	}
}

// setEmbeddedBase: dst is a temporal object; its embedded base pointer is set to src.
func setEmbeddedBase(dst, src any) { setEmbedded(dst, src) }

// replaceEmbedded makes dst's embedded lower-level pointer point to src's.
func replaceEmbedded(dst, src any) {
	dv, sv := reflect.ValueOf(dst).Elem(), reflect.ValueOf(src).Elem()
	for i := 0; i < dv.NumField(); i++ {
		f := dv.Type().Field(i)
		if f.Anonymous && f.Type.Kind() == reflect.Ptr {
			dv.Field(i).Set(sv.Field(i))
			return
		}
	}
}
