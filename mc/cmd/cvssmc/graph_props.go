package main

import (
	"fmt"
	"os"
	"os/exec"
	"strings"
	"sync/atomic"

	"cvssmc/internal/ev"
	"cvssmc/internal/lang"
	"cvssmc/internal/lib"
	"cvssmc/internal/spec"
)

// languageSweep runs every string set of the GRAPH engine for the given versions.
func languageSweep(r *ev.Run, G *gprops, gs *gstats, vers []int, thorough bool) {
	for _, ver := range vers {
		ver := ver
		if ver == 3 {
			runGraphs(r, G, gs, graphConfigs(thorough, []int{0, 1, 2}, nil))
			r.Phase("permutations v3", func() { permutationsV3(r, G, gs, []int{0, 1, 2}, thorough) })
		} else {
			runGraphs(r, G, gs, graphConfigs(thorough, nil, []int{0, 1, 2}))
			r.Phase("permutations v2", func() { permutationsV2(r, G, gs) })
		}
		r.Phase(fmt.Sprintf("short token sequences v%d", ver), func() {
			for lv := 0; lv < 3; lv++ {
				n := 2
				if thorough && lv < 2 {
					n = 3
				}
				shortSequences(r, G, gs, ver, lv, n)
			}
		})
	}
	r.Phase("pumping", func() { pumping(r, G, gs, vers, thorough) })
	r.Phase("length boundaries", func() { lengthBoundaries(r, G, gs, vers, thorough) })
	r.Phase("case variants", func() { caseVariants(r, G, gs, vers) })
	r.Phase("decorations", func() { decorations(r, G, gs, vers) })
	r.Phase("escaped vectors", func() { escapedVectors(r, G, gs, vers) })
	r.Phase("source literals as tokens", func() { sourceLiteralTokens(r, G, gs, vers) })
	r.Phase("hash aliases", func() { hashAliasInputs(r, G, gs, vers) })
	if G.accept || G.decOn || G.total {
		r.Phase("decoder re-use", func() { reusePhase(r, vers) })
	}
	r.Phase("value lattices", func() { valueLattices(r, G, gs, vers, thorough) })
	r.Phase("foreign names", func() { nameSweep(r, G, gs, vers, thorough) })
	if G.accept || G.classify {
		r.Phase("verdicts after other process histories", func() { verdictHistories(r, vers) })
	}
	r.Phase("vectors of the other version", func() { crossVersion(r, G, gs, vers) })
	r.Phase("edit ball", func() { editBall(r, G, gs, vers, thorough) })
	r.Phase("short byte strings", func() {
		n := 5
		if thorough {
			n = 6
		}
		shortStrings(r, G, gs, vers, n)
	})
}

// valueLattices: complete value products that the token graphs (one or two values per metric)
// do not contain.  v2: every (temporal group or none, environmental group or none) pair — all
// 194,021 — on two base vectors at the environmental decoder, every temporal group at the
// temporal decoder, and a slice of them at the decoder one level too low (must be rejected);
// value codes differ in length in v2, so anything that depends on the length or the exact text
// of a well-formed vector shows here (round 4: a maximum-length guard derived from the all-ND
// vector, C08-B-r4).  v3: every vector that differs from a background vector in at most two
// metrics, at every level.
func valueLattices(r *ev.Run, G *gprops, gs *gstats, vers []int, thorough bool) {
	var n int64
	for _, ver := range vers {
		if ver == 2 {
			egs, tgs := v2EnvGroups(), v2TempGroups()
			bases := []map[string]string{
				{"AV": "N", "AC": "L", "Au": "N", "C": "C", "I": "C", "A": "C"},
				{"AV": "L", "AC": "H", "Au": "M", "C": "N", "I": "P", "A": "N"},
			}
			safeParallel(r, len(egs), func(gi int) {
				var ln int64
				for _, t := range tgs {
					for bi, b := range bases {
						if bi > 0 && !thorough && gi%7 != 0 {
							continue
						}
						tok := merge(merge(b, t.tok), egs[gi].tok)
						judge(r, G, gs, 2, 2, canonicalWritten(2, 2, "", tok))
						ln++
						if gi%97 == 0 && egs[gi].present {
							judge(r, G, gs, 2, 1, canonicalWritten(2, 2, "", tok)) // environmental group at the temporal decoder
							ln++
						}
					}
				}
				atomic.AddInt64(&n, ln)
			})
			for _, t := range tgs {
				for _, b := range bases {
					tok := merge(b, t.tok)
					judge(r, G, gs, 2, 1, canonicalWritten(2, 1, "", tok))
					if len(t.tok) > 0 {
						judge(r, G, gs, 2, 0, canonicalWritten(2, 1, "", tok)) // temporal group at the base decoder
					}
					n += 2
				}
			}
			continue
		}
		bgs := reportBackgrounds()
		safeParallel(r, len(bgs), func(bi int) {
			bg := bgs[bi]
			ms := spec.UpTo(3, 2)
			var ln int64
			for i := 0; i < len(ms); i++ {
				for _, ci := range ms[i].Codes {
					for j := i; j < len(ms); j++ {
						for _, cj := range ms[j].Codes {
							if j == i && cj.Code != ci.Code {
								continue
							}
							tok := copyTok(bg.tok)
							tok[ms[i].Name], tok[ms[j].Name] = ci.Code, cj.Code
							for level := 0; level < 3; level++ {
								if level < ms[i].Level && level < ms[j].Level && !(i == 0 && j == 0) {
									continue // the projection does not contain the changed metrics
								}
								judge(r, G, gs, 3, level, canonicalWritten(3, level, bg.ver, lang.Project(3, level, tok)))
								ln++
							}
						}
					}
				}
			}
			atomic.AddInt64(&n, ln)
		})
	}
	r.Add("value_lattice_inputs", n)
}

// nameSweep: every metric name of one to three upper-case letters (18,278), with each of a set
// of value codes, appended to a complete vector of each level: a name lookup by binary search,
// by prefix or through a table that answers for names it does not hold accepts some of them
// (round 4, C07-A-r4).  Names of the decoder's level are duplicates and must be rejected too.
func nameSweep(r *ev.Run, G *gprops, gs *gstats, vers []int, thorough bool) {
	var names []string
	for a := 'A'; a <= 'Z'; a++ {
		names = append(names, string(a))
		for b := 'A'; b <= 'Z'; b++ {
			names = append(names, string([]rune{a, b}))
			for c := 'A'; c <= 'Z'; c++ {
				names = append(names, string([]rune{a, b, c}))
			}
		}
	}
	names = append(names, "Au", "AU", "au", "E0", "M1", "CVSS", "MAVX", "MODIFIED", "Mav", "mav")
	var n int64
	for _, ver := range vers {
		ver := ver
		values := []string{"H", "N", "X", "L"}
		if ver == 2 {
			values = []string{"H", "N", "ND", "L"}
		}
		if thorough {
			values = append(values, "P", "C", "U", "M", "A", "R", "O", "T", "W", "F")
		}
		full := lang.Classify(ver, 2, seeds(ver)[2])
		for level := 0; level < 3; level++ {
			level := level
			// a complete vector of the level, and one that holds the base metrics only
			stems := []string{canonicalWritten(ver, level, full.Ver, lang.Project(ver, level, full.Tokens))}
			if level > 0 {
				stems = append(stems, canonicalWritten(ver, 0, full.Ver, lang.Project(ver, 0, full.Tokens)))
			}
			safeParallel(r, len(names), func(ni int) {
				var ln int64
				for _, stem := range stems {
					for _, v := range values {
						judge(r, G, gs, ver, level, stem+"/"+names[ni]+":"+v)
						ln++
					}
				}
				atomic.AddInt64(&n, ln)
			})
		}
	}
	// 70,000 distinct names never seen before, one after the other in one goroutine, each standing
	// in for the first base metric and (every seventh) also appended to a complete vector: whatever
	// the library remembers about names must not wrap at 2^16 (round 7, C07-B-r7: names interned
	// into 16-bit symbols, the 65,536th distinct name aliases AV)
	for _, ver := range vers {
		base := canonicalWritten(ver, 0, lang.Classify(ver, 2, seeds(ver)[2]).Ver, lang.Project(ver, 0, lang.Classify(ver, 2, seeds(ver)[2]).Tokens))
		toks := strings.Split(base, "/")
		first := 0
		if ver == 3 {
			first = 1
		}
		val := toks[first][strings.IndexByte(toks[first], ':'):]
		bad := r.Violations()
		for i := 0; i < 70000 && r.Violations() < bad+3; i++ {
			name := fmt.Sprintf("Q%d", i)
			x := append(append(append([]string{}, toks[:first]...), name+val), toks[first+1:]...)
			judge(r, G, gs, ver, i%3, strings.Join(x, "/"))
			n++
			if i%7 == 0 {
				judge(r, G, gs, ver, i%3, base+"/"+name+val)
				n++
			}
		}
	}
	r.Add("foreign_name_inputs", n)
}

// verdictHistories: the verdicts of every decoder on a catalogue of valid and single-defect
// inputs, computed in fresh child processes after other histories (the other version's use, both,
// reports in 100 languages before the first temporal / environmental decode) and under the
// variant environments, must be what this process computes (round 7, C07-A-r7: an interner shared
// by the report names and the decoders' duplicate check, which stops seeing duplicates of metric
// names first met after 64 other strings).
func verdictHistories(r *ev.Run, vers []int) {
	var es [][]string
	for _, ver := range vers {
		for lv := 0; lv < 3; lv++ {
			es = append(es, []string{"verdicts", fmt.Sprint(ver), fmt.Sprint(lv)})
		}
	}
	historyAndEnvironment(r, es, []string{"languages-first", "both"})
}

// crossVersion: well-formed vectors of the other CVSS version (and v3 vectors without their
// prefix, v2 vectors behind a v3 prefix) offered to every decoder.
func crossVersion(r *ev.Run, G *gprops, gs *gstats, vers []int) {
	var n int64
	for _, ver := range vers {
		other := 5 - ver
		var ins []string
		for level := 0; level < 3; level++ {
			ins = append(ins, reuseInputs(other, level)...)
		}
		for _, s := range append([]string{}, ins...) {
			if other == 3 {
				if i := strings.Index(s, "/"); i > 0 {
					ins = append(ins, s[i+1:]) // v3 metrics without the prefix
				}
			} else {
				ins = append(ins, "CVSS:3.1/"+s, "CVSS:3.0/"+s, "CVSS:2.0/"+s)
			}
		}
		for level := 0; level < 3; level++ {
			for _, s := range ins {
				judge(r, G, gs, ver, level, s)
				n++
			}
		}
	}
	r.Add("other_version_inputs", n)
}

const graphRule = "explicit-state search of the real decoders: a state is the reflective dump of the decoder object after Decode(prefix) plus the decoder's residue (deferred unsupported-metric flag; v2: canonical-order flag); from every expanded state every token of the alphabet (all name:code pairs of the level, invalid values, foreign names, malformed tokens) is appended and the real Decode is run on the whole string; each executed string is judged by the reference recogniser written from the property text; plus stateless sets (all 40,320 base token orders, temporal/environmental placements, v2 group permutations, all token sequences of length <=2/3), character edit balls of radius 1/2 around seed vectors, every byte string of length <=5/6 over a 12-byte alphabet, pumped inputs (a prefix followed by k copies of one token for every k<=300 and around 2^9..2^16), every letter-case variant of every name and code, complete value products (every v2 optional-group combination; every v3 vector within two metric changes of four backgrounds), every foreign metric name of one to three upper-case letters, well-formed vectors of the other CVSS version, and second decodes on used decoders (whatever a used decoder accepts must be well-formed and equal a fresh decode)"

func graphAssumptions(r *ev.Run) {
	r.Assume("reference recogniser mc/internal/lang written from the property texts C07-C11 over the specification tables in mc/internal/spec")
	r.Assume("state merging: two prefixes are merged only when the implementation's complete reflective object state and the residue are equal (DESIGN.md 5.2 canonicalisation argument)")
	r.Assume("closure is per decoder level with the lower levels restricted to the representative configurations named in graph_* keys; boundary states are verified as transition targets but not expanded")
}

func init() {
	register("C07", "model_checking", func(r *ev.Run, thorough bool) {
		G, gs := &gprops{accept: true}, &gstats{}
		languageSweep(r, G, gs, []int{3}, thorough)
		finishGraphStats(r, gs)
		r.Set("rule", graphRule)
		setExhaustiveUnlessCapped(r)
		graphAssumptions(r)
	})
	register("C08", "model_checking", func(r *ev.Run, thorough bool) {
		G, gs := &gprops{accept: true}, &gstats{}
		languageSweep(r, G, gs, []int{2}, thorough)
		finishGraphStats(r, gs)
		r.Set("rule", graphRule)
		setExhaustiveUnlessCapped(r)
		graphAssumptions(r)
	})
	register("C11", "model_checking", func(r *ev.Run, thorough bool) {
		G, gs := &gprops{classify: true}, &gstats{}
		languageSweep(r, G, gs, []int{3, 2}, thorough)
		r.Phase("single-defect catalogue", func() { singleDefects(r, gs) })
		finishGraphStats(r, gs)
		r.Set("rule", graphRule+"; plus the single-defect catalogue: from each seed vector, for every metric and position one classified edit whose admissible set is a singleton by construction")
		setExhaustiveUnlessCapped(r)
		graphAssumptions(r)
	})
	register("C09", "model_checking", func(r *ev.Run, thorough bool) {
		G, gs := &gprops{order: true, decOn: true, dec: props{scoreLevel: -1, fields: true}}, &gstats{}
		runGraphs(r, G, gs, graphConfigs(thorough, []int{0, 1, 2}, []int{0, 1, 2}))
		r.Phase("permutations", func() {
			permutationsV3(r, G, gs, []int{0, 1, 2}, thorough)
			permutationsV2(r, G, gs)
		})
		r.Phase("decoder re-use", func() { reusePhase(r, []int{3, 2}) })
		r.Phase("decorations", func() { decorations(r, G, gs, []int{3, 2}) })
		r.Phase("escaped vectors", func() { escapedVectors(r, G, gs, []int{3, 2}) })
		r.Phase("source literals as tokens", func() { sourceLiteralTokens(r, G, gs, []int{3, 2}) })
		r.Phase("hash aliases", func() { hashAliasInputs(r, G, gs, []int{3, 2}) })
		r.Phase("case variants", func() { caseVariants(r, G, gs, []int{3, 2}) })
		r.Phase("value lattices", func() { valueLattices(r, G, gs, []int{3, 2}, thorough) })
		r.Phase("enum", func() {
			P := noScore
			P.fields = true
			enumV3Base(r, P, nil)
			every, nsfx := 37, 1
			if thorough {
				every, nsfx = 1, 4
			}
			decs := []int{1}
			if thorough {
				decs = []int{1, 2}
			}
			enumV3Temporal(r, P, nil, decs, v3EnvSuffixes()[13:13+nsfx])
			enumV3EnvProduct(r, P, nil, every)
			omittedTemporal(r, P, nil)
			xVersusOmitted(r)
			enumV2Temporal(r, P, nil, []int{0, 1, 2}, []map[string]string{{}, {"CDP": "LM", "TD": "M", "CR": "H", "IR": "L", "AR": "ND"}})
			dpathSliceV2(r, P, nil, func(gi int) bool { return gi%480 == 1 || (thorough && gi%8 == 1) })
		})
		finishGraphStats(r, gs)
		r.Add("evaluations", r.Get("v3_environmental_product_vectors"))
		r.Set("order_dependence_events", atomic.LoadInt64(&gs.orderEvents))
		r.Set("rule", "at every accepting transition of the decoder graphs (see C07/C08), for every string of the permutation sets and for every vector of the ENUM D-paths: each exported field equals the library constant the harness associates with the written code (and prints that code), unwritten optional metrics are Not Defined (v3) / their group IsEmpty (v2), Ver matches the prefix; all paths reaching one token set give identical observables; explicit X equals omission (all omitted metrics at once on every vector, and one metric at a time for every base vector in five contexts)")
		setExhaustiveUnlessCapped(r)
		graphAssumptions(r)
		r.Assume("code -> library constant table written by hand from the constants' names (mc/internal/lib/enums.go), independent of the library's code maps")
	})
	register("C10", "model_checking", func(r *ev.Run, thorough bool) {
		G, gs := &gprops{decOn: true, dec: props{scoreLevel: -1, encode: true}}, &gstats{}
		runGraphs(r, G, gs, graphConfigs(thorough, []int{0, 1, 2}, []int{0, 1, 2}))
		r.Phase("permutations", func() {
			permutationsV3(r, G, gs, []int{0, 1, 2}, thorough)
			permutationsV2(r, G, gs)
		})
		r.Phase("decoder re-use", func() { reusePhase(r, []int{3, 2}) })
		// whatever the library accepts among the decorated, wrapped, case-varied and other-version
		// inputs and the complete value products owes the same encoding obligations (v2: the encoding
		// is byte-identical to the input)
		r.Phase("decorations", func() { decorations(r, G, gs, []int{3, 2}) })
		r.Phase("escaped vectors", func() { escapedVectors(r, G, gs, []int{3, 2}) })
		r.Phase("source literals as tokens", func() { sourceLiteralTokens(r, G, gs, []int{3, 2}) })
		r.Phase("hash aliases", func() { hashAliasInputs(r, G, gs, []int{3, 2}) })
		r.Phase("case variants", func() { caseVariants(r, G, gs, []int{3, 2}) })
		r.Phase("value lattices", func() { valueLattices(r, G, gs, []int{3, 2}, thorough) })
		r.Phase("vectors of the other version", func() { crossVersion(r, G, gs, []int{3, 2}) })
		r.Phase("enum", func() {
			P := noScore
			P.encode = true
			enumV3Base(r, P, nil)
			every, nsfx := 37, 1
			if thorough {
				every, nsfx = 1, 4
			}
			decs := []int{1}
			if thorough {
				decs = []int{1, 2}
			}
			enumV3Temporal(r, P, nil, decs, v3EnvSuffixes()[13:13+nsfx])
			enumV3EnvProduct(r, P, nil, every)
			omittedTemporal(r, P, nil)
			enumV2Temporal(r, P, nil, []int{0, 1, 2}, []map[string]string{{}, {"CDP": "LM", "TD": "M", "CR": "H", "IR": "L", "AR": "ND"}})
			dpathSliceV2(r, P, nil, func(gi int) bool { return gi%480 == 2 || (thorough && gi%8 == 2) })
		})
		finishGraphStats(r, gs)
		r.Set("rule", "at every accepting transition of the decoder graphs, for every permutation string and every ENUM D-path vector: Encode() succeeds and equals the canonical text computed by the reference encoder from the token set (v3: prefix, specification order, every temporal/environmental metric of the level spelled out; v2: exactly the groups present, byte-identical to the input), String()==Encode(), and decoding the encoding gives an object with identical observables")
		setExhaustiveUnlessCapped(r)
		graphAssumptions(r)
	})
	register("C12", "model_checking", func(r *ev.Run, thorough bool) {
		G, gs := &gprops{total: true}, &gstats{}
		languageSweep(r, G, gs, []int{3, 2}, thorough)
		r.Phase("long inputs", func() { longInputs(r, G, gs, []int{3, 2}) })
		r.Phase("nil and fresh receivers", func() { nilAndFresh(r) })
		r.Phase("field reset", func() { fieldReset(r, thorough) })
		r.Phase("objects filled through accessors or fields", func() { filledOtherwise(r, thorough) })
		finishGraphStats(r, gs)
		r.Set("rule", graphRule+"; on every executed string: no panic, exactly one of object and error; at every new state the same string through a nil receiver; after every failed decode all observers on the receiver left behind (every abort point of every abort kind reached by the graphs) — no panic, and error/error/0 while a metric still holds its unknown value; fixed 1 MiB inputs; all observers on nil receivers and fresh constructor results; every exported field of decoded objects reset to its unknown/invalid value in turn")
		setExhaustiveUnlessCapped(r)
		r.Phase("Decode as the entry function of a goroutine", func() {
			// round 7, C12-A-r7: an error context that walks two frames up the stack and panics when
			// there are none.  A panic there cannot be recovered: the call runs in a child process.
			exe, err := os.Executable()
			if err != nil {
				return
			}
			out, err := exec.Command(exe, "fresh", "goentry").CombinedOutput()
			r.Add("evaluations", 70)
			if err != nil {
				tail := string(out)
				if len(tail) > 2500 {
					tail = tail[:2500]
				}
				if strings.Contains(tail, "github.com/goark/go-cvss/") {
					r.Violate(ev.Violation{Kind: "decode-panics", Case: map[string]any{"how": "go d.Decode(s): Decode as the entry function of a goroutine, for every decoder (constructor results and nil receivers) and seven inputs; run in a child process (cvssmc fresh goentry)"}, Observed: tail, Expected: "every call returns", GoTest: "go metric.NewBase().Decode(\"CVSS:3.1/AV:N/AC:L/PR:N/UI:N/S:U/C:H/I:H/A:Q\"); time.Sleep(time.Second)"})
				} else {
					r.Infra("goentry child failed: " + err.Error() + ": " + tail)
				}
			}
		})
		graphAssumptions(r)
	})
}

// ---------------------------------------------------------------------------------------------
// C11: single-defect catalogue

func singleDefects(r *ev.Run, gs *gstats) {
	G := &gprops{classify: true}
	var n, single int64
	try := func(ver, level int, s, want string) {
		v := lang.Classify(ver, level, s)
		atomic.AddInt64(&n, 1)
		if v.Accept || len(v.Defects) != 1 || !v.Defects[want] {
			// the catalogue itself must be single-defect: otherwise the harness is at fault
			r.Infra(fmt.Sprintf("single-defect catalogue: %q at %s classified %v, constructed as %s", s, decoderName(ver, level), v.DefectList(), want))
			return
		}
		atomic.AddInt64(&single, 1)
		judge(r, G, gs, ver, level, s)
	}
	for _, ver := range []int{3, 2} {
		for si, seed := range seeds(ver) {
			toks := strings.Split(seed, "/")
			first := 0
			if ver == 3 {
				first = 1
			}
			seedLevel := lang.Classify(ver, 2, seed)
			_ = seedLevel
			for level := 0; level < 3; level++ {
				if !lang.Classify(ver, level, seed).Accept {
					continue
				}
				join := func(ts []string) string { return strings.Join(ts, "/") }
				if ver == 3 {
					for _, p := range []string{"CVS:3.1", "cvss:3.1", "CVSS3.1", "CVSS:3.1:1", "", " CVSS:3.1", "CVSS :3.1"} {
						try(3, level, join(append([]string{p}, toks[1:]...)), lang.InvalidVector)
					}
					for _, p := range []string{"CVSS:2.0", "CVSS:3.2", "CVSS:4.0", "CVSS:1.0", "CVSS:3.10"} {
						try(3, level, join(append([]string{p}, toks[1:]...)), lang.NotSupportVer)
					}
				}
				for i := first; i < len(toks); i++ {
					name := strings.Split(toks[i], ":")[0]
					def := spec.Find(ver, name)
					// duplicate the token at every position
					for j := first; j <= len(toks); j++ {
						if ver == 2 && j != i && j != i+1 {
							continue // v2: any other position would also be misordered
						}
						d := append(append(append([]string{}, toks[:j]...), toks[i]), toks[j:]...)
						try(ver, level, join(d), lang.SameMetric)
					}
					// invalid values
					for _, bad := range []string{"Q", strings.ToLower(def.Codes[0].Code), def.Codes[0].Code + def.Codes[0].Code, "0"} {
						if def.Has(bad) {
							continue
						}
						m := append([]string{}, toks...)
						m[i] = name + ":" + bad
						try(ver, level, join(m), lang.InvalidValue)
					}
					// malformed token
					for _, bad := range []string{name, name + ":", ":" + def.Codes[0].Code, toks[i] + ":" + def.Codes[0].Code, ""} {
						m := append([]string{}, toks...)
						m[i] = bad
						if def.Level == 0 || ver == 3 {
							// replacing a base token also removes a base metric; the reference then admits
							// both defects — only keep genuinely single-defect variants (insertions)
							ins := append(append(append([]string{}, toks[:i]...), bad), toks[i:]...)
							try(ver, level, join(ins), lang.InvalidVector)
							continue
						}
					}
					// foreign name inserted at this position
					for _, f := range []string{"ZZ:N", strings.ToLower(name) + ":" + def.Codes[0].Code} {
						ins := append(append(append([]string{}, toks[:i]...), f), toks[i:]...)
						try(ver, level, join(ins), lang.NotSupportMetric)
					}
					// drop a base metric
					if def.Level == 0 {
						d := append(append([]string{}, toks[:i]...), toks[i+1:]...)
						try(ver, level, join(d), lang.NoBase)
					}
					// v2: drop part of a group; transpose neighbours
					if ver == 2 && def.Level > 0 && def.Level <= level {
						d := append(append([]string{}, toks[:i]...), toks[i+1:]...)
						want := lang.NoTemporal
						if def.Level == 2 {
							want = lang.NoEnv
						}
						try(2, level, join(d), want)
					}
					if ver == 2 && i+1 < len(toks) {
						for j := i + 1; j < len(toks); j++ {
							sw := append([]string{}, toks...)
							sw[i], sw[j] = sw[j], sw[i]
							try(2, level, join(sw), lang.Misordered)
						}
					}
				}
				// higher-level metric offered to a lower decoder
				for _, m := range spec.Metrics(ver) {
					if m.Level > level {
						if _, present := lang.Classify(ver, 2, seed).Tokens[m.Name]; present {
							continue
						}
						try(ver, level, seed+"/"+m.Name+":"+m.Codes[0].Code, lang.NotSupportMetric)
					}
				}
			}
			_ = si
		}
	}
	r.Add("single_defect_inputs", single)
}

// ---------------------------------------------------------------------------------------------
// C12: nil receivers, fresh constructor results, field reset

func expectRefusal(r *ev.Run, what string, o any, cs map[string]any) {
	ob := lib.Observe(o)
	if ob.Panic != "" {
		r.Violate(ev.Violation{Kind: "observer-panics", Case: cs, Observed: ob.Panic, Expected: "no panic"})
		return
	}
	if ob.GetErr == "nil" || ob.EncErr == "nil" || ob.Score != 0 {
		r.Violate(ev.Violation{Kind: "fabricated-result", Case: cs, Observed: ob.String(), Expected: what + ": GetError and Encode report an error and Score()==0"})
	}
}

func nilAndFresh(r *ev.Run) {
	var n int64
	for _, ver := range []int{3, 2} {
		for level := 0; level < 3; level++ {
			for _, kind := range []string{"nil receiver", "fresh constructor result"} {
				var o any
				if kind == "nil receiver" {
					o = lib.Nil(ver, level)
				} else {
					o = lib.New(ver, level)
				}
				cs := map[string]any{"cvss": ver, "type": spec.LevelNames[level], "object": kind}
				expectRefusal(r, kind, o, cs)
				n++
				// accessors on the object and observers on what they return
				func() {
					defer func() {
						if x := recover(); x != nil {
							r.Violate(ev.Violation{Kind: "accessor-panics", Case: cs, Observed: fmt.Sprint(x), Expected: "no panic"})
						}
					}()
					for lv := 0; lv < level; lv++ {
						sub := lib.Sub(o, lv)
						ob := lib.Observe(sub)
						n++
						if ob.Panic != "" {
							r.Violate(ev.Violation{Kind: "observer-panics", Case: with(cs, "view", spec.LevelNames[lv]), Observed: ob.Panic, Expected: "no panic"})
						} else if ob.GetErr == "nil" || ob.EncErr == "nil" || ob.Score != 0 {
							r.Violate(ev.Violation{Kind: "fabricated-result", Case: with(cs, "view", spec.LevelNames[lv]), Observed: ob.String(), Expected: "error, error, 0"})
						}
					}
				}()
			}
		}
	}
	r.Add("nil_and_fresh_observations", n)
}

// filledOtherwise: a freshly constructed higher-level object whose embedded lower-level object is
// decoded through the accessor (NewEnvironmental().BaseMetrics().Decode(v), ...TemporalMetrics()
// .Decode(v)), and (v3) a freshly constructed object whose exported fields are assigned: the
// object came from a constructor, so no query may panic, and since it holds exactly the metrics
// of v its observables must equal those of its own decoder applied to v — for every base vector
// of both versions (round 4, C12-B-r4: a function-valued field that only Environmental.Decode fills).
func filledOtherwise(r *ev.Run, thorough bool) {
	var n int64
	for _, ver := range []int{3, 2} {
		ver := ver
		bases := allTok(ver, 0)
		labels := []string{""}
		if ver == 3 {
			labels = []string{"3.0", "3.1"}
		}
		temporal := map[string]string{"E": "F", "RL": "W", "RC": "R"}
		if ver == 2 {
			temporal = map[string]string{"E": "F", "RL": "W", "RC": "UR"}
		}
		safeParallel(r, len(bases), func(bi int) {
			var ln int64
			for _, label := range labels {
				for level := 1; level < 3; level++ {
					for via := 0; via < level; via++ { // the accessor level that decodes
						tok := bases[bi]
						if via == 1 {
							tok = merge(tok, temporal)
						}
						s := canonicalWritten(ver, via, label, tok)
						o := lib.New(ver, level)
						_, err, pan := lib.Decode(lib.Sub(o, via), s)
						cs := map[string]any{"cvss": ver, "history": []string{"New" + spec.LevelNames[level] + "()", spec.LevelNames[via] + " accessor .Decode(" + s + ")", "every query on the outer object"}}
						ln++
						if pan != "" || err != nil {
							r.Violate(ev.Violation{Kind: "accessor-decode-fails", Case: cs, Observed: fmt.Sprintf("err=%v panic=%q", err, pan), Expected: "accepted"})
							continue
						}
						compareWithOwnDecode(r, cs, ver, level, s, o, true)
					}
					if ver == 3 && (thorough || bi%9 == 0 || level == 2) {
						tok := bases[bi]
						if level == 2 && bi%2 == 0 {
							tok = merge(tok, map[string]string{"MS": "C", "MAV": "L", "CR": "H"})
						}
						s := canonicalWritten(3, level, label, tok)
						o := fieldBuilt(3, level, label, tok)
						cs := map[string]any{"cvss": 3, "history": []string{"New" + spec.LevelNames[level] + "()", "exported fields assigned as in " + s, "every query"}}
						ln++
						// the encoding of a field-built object lists only what a Decode recorded: not compared
						compareWithOwnDecode(r, cs, 3, level, s, o, false)
					}
				}
			}
			atomic.AddInt64(&n, ln)
		})
	}
	r.Add("objects_filled_through_accessors_or_fields", n)
}

func compareWithOwnDecode(r *ev.Run, cs map[string]any, ver, level int, s string, o any, encoding bool) {
	want, err, _ := lib.DecodeNew(ver, level, s)
	if err != nil || want == nil {
		return // acceptance is C07/C08's business
	}
	for lv := level; lv >= 0; lv-- {
		a, b := lib.Observe(lib.Sub(o, lv)), lib.Observe(lib.Sub(want, lv))
		if a.Panic != "" {
			r.Violate(ev.Violation{Kind: "observer-panics", Case: with(cp(cs), "view", spec.LevelNames[lv]), Observed: a.Panic, Expected: "no panic"})
			return
		}
		if !encoding {
			a.Enc, a.Str, b.Enc, b.Str = "", "", "", ""
		}
		if a != b {
			r.Violate(ev.Violation{Kind: "object-differs-from-decode", Case: with(cp(cs), "view", spec.LevelNames[lv]), Observed: a.String(), Expected: b.String() + "  (the " + spec.LevelNames[level] + " decoder applied to " + s + ")"})
			return
		}
	}
}

// fieldReset: decoded objects with one exported field (or the version) reset to its
// unknown/invalid value => error, error, 0.
func fieldReset(r *ev.Run, thorough bool) {
	var n int64
	type seed struct {
		ver, level int
		s          string
	}
	var seedsL []seed
	for _, ver := range []int{3, 2} {
		for _, s := range seeds(ver) {
			for level := 0; level < 3; level++ {
				if lang.Classify(ver, level, s).Accept {
					seedsL = append(seedsL, seed{ver, level, s})
				}
			}
		}
	}
	// v3 vectors decoded by higher-level decoders without the optional metrics, too
	seedsL = append(seedsL, seed{3, 2, seeds(3)[0]}, seed{3, 1, seeds(3)[0]})
	for _, sd := range seedsL {
		v := lang.Classify(sd.ver, sd.level, sd.s)
		for _, m := range spec.UpTo(sd.ver, sd.level) {
			if sd.ver == 2 && m.Level > 0 && !lang.GroupPresent(v.Tokens, m.Level) {
				continue // v2: metric of an absent group
			}
			en := lib.EnumOf(sd.ver, m.Name)
			vals := []int{en.Unknown, -1, en.MaxEnum + 1, 1 << 30, en.Consts[0] + 1<<8, en.Consts[0] + 1<<32, en.Consts[0] - 1<<32}
			_ = thorough
			for _, bad := range vals {
				obj, err, _ := lib.DecodeNew(sd.ver, sd.level, sd.s)
				if err != nil || obj == nil {
					continue
				}
				lib.SetField(obj, m.Name, bad)
				cs := map[string]any{"cvss": sd.ver, "decoder": spec.LevelNames[sd.level], "vector": sd.s, "field_reset": m.Name, "to": bad}
				if bad == en.Unknown {
					// the property speaks of the unknown/invalid value; other out-of-range integers
					// are only required not to panic
					for lv := m.Level; lv <= sd.level; lv++ {
						expectRefusal(r, "metric "+m.Name+" reset to unknown", lib.Sub(obj, lv), with(cs, "view", spec.LevelNames[lv]))
						n++
					}
				} else if ob := lib.Observe(obj); ob.Panic != "" {
					r.Violate(ev.Violation{Kind: "observer-panics", Case: cs, Observed: ob.Panic, Expected: "no panic"})
				}
				n++
			}
		}
		if sd.ver == 3 {
			obj, err, _ := lib.DecodeNew(3, sd.level, sd.s)
			if err == nil && obj != nil {
				lib.SetV3Ver(obj, 0)
				for lv := 0; lv <= sd.level; lv++ {
					expectRefusal(r, "version reset to unknown", lib.Sub(obj, lv), map[string]any{"cvss": 3, "decoder": spec.LevelNames[sd.level], "vector": sd.s, "field_reset": "Ver", "view": spec.LevelNames[lv]})
					n++
				}
			}
		}
	}
	r.Add("field_reset_observations", n)
}

// setExhaustiveUnlessCapped marks the run exhaustive unless a graph search hit a cap.
func setExhaustiveUnlessCapped(r *ev.Run) {
	if v, ok := r.Cov["exhaustive"].(bool); ok && !v {
		return
	}
	r.Set("exhaustive", true)
}
