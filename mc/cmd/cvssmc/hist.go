package main

// HIST engine (DESIGN.md §5.3): breadth-first search over operation sequences applied to live
// objects.  State key = reflective dump of the live object + dump of every package-level
// variable of the library.  Successors are computed by replaying the path on a fresh object.
//
// Invariants on every transition:
//	I1  a query leaves the observables of the live object unchanged;
//	I2  every result equals the first result recorded for the same (logical object state,
//	    operation) — logical state = start object + mutations applied, whatever queries and
//	    unrelated decodes happened in between — and observables after a mutation are
//	    independent of the queries that preceded it;
//	I3  results equal those computed in pristine processes (one fresh process per entry).

import (
	"bytes"
	"crypto/sha256"
	"encoding/json"
	"fmt"
	"io"
	"os"
	"os/exec"
	"runtime"
	"sort"
	"strconv"
	"strings"
	"sync"
	"sync/atomic"
	"time"

	"cvssmc/internal/dump"
	"cvssmc/internal/ev"
	"cvssmc/internal/lang"
	"cvssmc/internal/lib"
	"cvssmc/internal/spec"

	v2 "github.com/goark/go-cvss/v2/metric"
	v3 "github.com/goark/go-cvss/v3/metric"
	"github.com/goark/go-cvss/v3/report"
	"golang.org/x/text/language"
)

type histStart struct {
	id         string
	ver, level int
	make       func() any // fresh live object (may be a typed nil)
	decoded    bool       // result of a successful decode
	isNil      bool
	tokens     map[string]string
	panicOK    bool // zero struct literals: a panicking query is a result like any other, not a violation
	companion  bool // made right after ANOTHER decoder's failed Decode; that decoder is kept (histCompanions)
}

// option slices owned by the caller (this harness) that share one backing array with spare
// capacity: a library that appends to the slice it is given writes into it (round 5, C15-B-r5)
var histCommonOpts = make([]report.ReportOptionsFunc, 0, 4)
var histJaOpts = append(histCommonOpts, report.WithOptionsLanguage(language.Japanese))

// histCompanions: live object -> the decoder whose Decode failed just before the live object was made
var histCompanions sync.Map

type histOp struct {
	name string
	kind byte // 'q' query, 'm' mutation, 'd' process history (decode another vector)
	ok   func(s *histStart) bool
	run  func(o any) string
}

func safeRun(f func() string) (res string) {
	defer func() {
		if x := recover(); x != nil {
			res = fmt.Sprintf("PANIC: %v", x)
		}
	}()
	return f()
}

func histStarts(thorough bool) []histStart {
	var st []histStart
	add := func(id string, ver, level int, mk func() any, decoded, isNil bool, tok map[string]string) {
		st = append(st, histStart{id: id, ver: ver, level: level, make: mk, decoded: decoded, isNil: isNil, tokens: tok})
	}
	for _, ver := range []int{3, 2} {
		ver := ver
		for level := 0; level < 3; level++ {
			level := level
			add(fmt.Sprintf("v%d %s nil receiver", ver, spec.LevelNames[level]), ver, level, func() any { return lib.Nil(ver, level) }, false, true, nil)
			add(fmt.Sprintf("v%d %s fresh", ver, spec.LevelNames[level]), ver, level, func() any { return lib.New(ver, level) }, false, false, nil)
			// decoders that failed at the very first element (version prefix / first token), at every level
			for _, bad := range []string{"CVSS:4.0/AV:N", "CVS:3.1/AV:N", "", "XX:Y"} {
				bad := bad
				add(fmt.Sprintf("v%d %s left behind by failed %q", ver, spec.LevelNames[level], bad), ver, level, func() any {
					recv := lib.New(ver, level)
					lib.Decode(recv, bad)
					return recv
				}, false, false, nil)
			}
			// a decoder that succeeded, then failed on a second input
			if s0 := seeds(ver)[0]; true {
				add(fmt.Sprintf("v%d %s decoded %s, then failed on a bad version/first token", ver, spec.LevelNames[level], s0), ver, level, func() any {
					recv := lib.New(ver, level)
					lib.Decode(recv, s0)
					lib.Decode(recv, "CVSS:4.0/AV:N")
					return recv
				}, false, false, nil)
			}
		}
		if ver == 3 {
			// constructor results whose exported fields were assigned one by one (never decoded)
			for level := 0; level < 3; level++ {
				level := level
				bg := reportBackgrounds()[level]
				full := lang.Project(3, level, bg.tok)
				add(fmt.Sprintf("v3 %s built by assigning the exported fields to %s", spec.LevelNames[level], canonicalWritten(3, level, bg.ver, full)), 3, level,
					func() any { return fieldBuilt(3, level, bg.ver, full) }, true, false, full)
			}
		}
		// struct literals around a decoded lower-level object (no constructor: the private seen-names
		// table is nil).  Whatever such an object answers, queries must not change it (round 4,
		// C15-A-r4: a lazily allocated table that only some queries allocate).
		if ver == 2 {
			add("v2 temporal struct literal around a decoded base", 2, 1, func() any {
				b, _ := v2.NewBase().Decode("AV:N/AC:L/Au:N/C:C/I:C/A:C")
				return &v2.Temporal{Base: b, E: v2.ExploitabilityFunctional, RL: v2.RemediationLevelWorkaround, RC: v2.ReportConfidenceUncorroborated}
			}, false, false, nil)
			add("v2 environmental struct literal around a decoded temporal", 2, 2, func() any {
				t, _ := v2.NewTemporal().Decode("AV:N/AC:L/Au:N/C:C/I:C/A:C/E:F/RL:W/RC:UR")
				return &v2.Environmental{Temporal: t, CDP: v2.CollateralDamagePotentialHigh, TD: v2.TargetDistributionMedium, CR: v2.ConfidentialityRequirementHigh, IR: v2.IntegrityRequirementLow, AR: v2.AvailabilityRequirementMedium}
			}, false, false, nil)
			add("v2 environmental struct literal around a struct-literal temporal", 2, 2, func() any {
				b, _ := v2.NewBase().Decode("AV:L/AC:M/Au:S/C:P/I:P/A:N")
				return &v2.Environmental{Temporal: &v2.Temporal{Base: b, E: v2.ExploitabilityUnproven, RL: v2.RemediationLevelOfficialFix, RC: v2.ReportConfidenceConfirmed}, CDP: v2.CollateralDamagePotentialLow, TD: v2.TargetDistributionHigh, CR: v2.ConfidentialityRequirementLow, IR: v2.IntegrityRequirementHigh, AR: v2.AvailabilityRequirementHigh}
			}, false, false, nil)
		} else {
			add("v3 temporal struct literal around a decoded base", 3, 1, func() any {
				b, _ := v3.NewBase().Decode("CVSS:3.1/AV:N/AC:L/PR:N/UI:R/S:C/C:H/I:L/A:N")
				return &v3.Temporal{Base: b, E: v3.ExploitabilityFunctional, RL: v3.RemediationLevelWorkaround, RC: v3.ReportConfidenceReasonable}
			}, false, false, nil)
			add("v3 environmental struct literal around a decoded temporal", 3, 2, func() any {
				t, _ := v3.NewTemporal().Decode("CVSS:3.0/AV:N/AC:L/PR:L/UI:N/S:U/C:H/I:L/A:N/E:P/RL:T/RC:U")
				return &v3.Environmental{Temporal: t, CR: v3.ConfidentialityRequirementHigh, MS: v3.ModifiedScopeChanged, MAV: v3.ModifiedAttackVectorLocal}
			}, false, false, nil)
		}
		// zero struct literals with nil embedded pointers: outside C12 (several queries panic in the
		// pinned library), but whatever a query answers — a panic included — it must leave the object
		// as it was and answer the same next time (round 5, C15-A-r5: accessors that lazily create
		// the missing embedded object)
		zero := func(id string, level int, mk func() any) {
			st = append(st, histStart{id: id, ver: ver, level: level, make: mk, panicOK: true})
		}
		if ver == 2 {
			zero("v2 &Temporal{} (nil embedded base)", 1, func() any { return &v2.Temporal{} })
			zero("v2 &Environmental{} (nil embedded temporal)", 2, func() any { return &v2.Environmental{} })
			zero("v2 &Environmental{Temporal: &Temporal{}}", 2, func() any { return &v2.Environmental{Temporal: &v2.Temporal{}} })
		} else {
			zero("v3 &Temporal{} (nil embedded base)", 1, func() any { return &v3.Temporal{} })
			zero("v3 &Environmental{} (nil embedded temporal)", 2, func() any { return &v3.Environmental{} })
			zero("v3 &Environmental{Temporal: &Temporal{}}", 2, func() any { return &v3.Environmental{Temporal: &v3.Temporal{}} })
		}
		// an object decoded right after ANOTHER decoder's Decode failed; the failed decoder is kept and
		// may retry later (round 5, C10-A-r5: the name tables of a failed receiver go to a free list
		// that the next constructor draws from, and a retry releases them a second time)
		for level := 0; level < 3; level++ {
			level := level
			good := seeds(ver)[0]
			if !lang.Classify(ver, level, good).Accept {
				continue
			}
			for _, bad := range []string{"CVSS:3.1/AV:N/AV:N", "AV:N/AV:N", "CVSS:3.1/AV:Q", "garbage"} {
				bad := bad
				st = append(st, histStart{id: fmt.Sprintf("v%d %s decoded %s right after another decoder failed on %q (that decoder is kept)", ver, spec.LevelNames[level], good, bad), ver: ver, level: level,
					make: func() any {
						x := lib.New(ver, level)
						lib.Decode(x, bad)
						y, _, _ := lib.DecodeNew(ver, level, good)
						if y == nil {
							return lib.Nil(ver, level)
						}
						histCompanions.Store(y, x)
						return y
					}, decoded: true, tokens: lang.Classify(ver, level, good).Tokens, companion: true})
			}
		}
		// objects obtained through a nil receiver, plainly and right after a nil-receiver decode that
		// was rejected (round 5, C04-A-r5: throw-away objects of rejected nil-receiver decodes kept on
		// a spare list together with their embedded objects)
		for level := 0; level < 3; level++ {
			level := level
			good := seeds(ver)[level]
			if !lang.Classify(ver, level, good).Accept {
				good = seeds(ver)[0]
			}
			for _, rej := range []string{"", "AV:N/AV:Q", "CVSS:3.1/AV:N/AV:Q"} {
				rej := rej
				id := fmt.Sprintf("v%d %s decoded %s through a nil receiver", ver, spec.LevelNames[level], good)
				if rej != "" {
					id += fmt.Sprintf(" right after a nil-receiver Decode(%q) at the same level was rejected", rej)
				}
				add(id, ver, level, func() any {
					if rej != "" {
						lib.Decode(lib.Nil(ver, level), rej)
					}
					o, _, _ := lib.Decode(lib.Nil(ver, level), good)
					if o == nil {
						return lib.Nil(ver, level)
					}
					return o
				}, true, false, lang.Classify(ver, level, good).Tokens)
			}
		}
		vecs := seeds(ver)
		if ver == 3 {
			// Modified metrics that differ from their base metrics, in both directions
			vecs = append(vecs,
				"CVSS:3.0/AV:N/AC:L/PR:L/UI:R/S:U/C:L/I:H/A:H/E:F/RL:W/RC:R/AR:L/MAV:L/MPR:H/MS:C/MC:H",
				"CVSS:3.1/AV:L/AC:H/PR:H/UI:N/S:C/C:H/I:L/A:N/CR:H/MAC:L/MUI:R/MS:U/MI:N/MA:H",
				// vectors whose environmental score differs between 3.0 and 3.1 (changed effective scope)
				"CVSS:3.1/AV:N/AC:L/PR:N/UI:R/S:U/C:L/I:H/A:H/AR:L/MS:C",
				"CVSS:3.0/AV:N/AC:L/PR:L/UI:N/S:C/C:H/I:H/A:H/E:P/RL:O/RC:X/CR:H/IR:H/AR:H")
		}
		for si, s := range vecs {
			s := s
			for level := 0; level < 3; level++ {
				level := level
				v := lang.Classify(ver, level, s)
				if v.Accept {
					add(fmt.Sprintf("v%d %s decoded %s", ver, spec.LevelNames[level], s), ver, level, func() any {
						o, _, _ := lib.DecodeNew(ver, level, s)
						if o == nil {
							return lib.Nil(ver, level)
						}
						return o
					}, true, false, v.Tokens)
					continue
				}
				if !thorough && si > 0 {
					continue
				}
				// the seed is rejected by this (lower-level) decoder: object left behind
				add(fmt.Sprintf("v%d %s left behind by rejected %s", ver, spec.LevelNames[level], s), ver, level, func() any {
					recv := lib.New(ver, level)
					lib.Decode(recv, s)
					return recv
				}, false, false, nil)
			}
			// failed decodes: abort after k tokens
			toks := strings.Split(s, "/")
			ks := []int{2, len(toks) / 2, len(toks) - 1}
			if !thorough && si > 0 {
				ks = ks[1:2]
			}
			if si >= len(seeds(ver)) {
				ks = nil
			}
			for _, k := range ks {
				for _, bad := range []string{"AV:Q", "ZZ:N", toks[len(toks)-1]} {
					bad := bad
					broken := strings.Join(append(append([]string{}, toks[:k]...), bad), "/")
					if bad == toks[len(toks)-1] {
						broken = strings.Join(toks[:k], "/") // merely incomplete
					}
					level := 2
					add(fmt.Sprintf("v%d %s left behind by failed %s", ver, spec.LevelNames[level], broken), ver, level, func() any {
						recv := lib.New(ver, level)
						lib.Decode(recv, broken)
						return recv
					}, false, false, nil)
				}
			}
		}
	}
	return st
}

var histTemplate = "{{.Vector}}|{{.SeverityName}}={{.SeverityValue}}|{{.BaseScore}}|{{.BaseReport.Vector}}|{{.AVName}}={{.AVValue}}"

func reportOf(o any, l language.Tag) (rep any) {
	opt := report.WithOptionsLanguage(l)
	switch x := o.(type) {
	case *v3.Base:
		return report.NewBase(x, opt)
	case *v3.Temporal:
		return report.NewTemporal(x, opt)
	case *v3.Environmental:
		return report.NewEnvironmental(x, opt)
	}
	return nil
}

func histOps(thorough bool) []histOp {
	always := func(*histStart) bool { return true }
	nonNil := func(s *histStart) bool { return !s.isNil }
	var ops []histOp
	q := func(name string, ok func(*histStart) bool, run func(o any) string) {
		ops = append(ops, histOp{name: name, kind: 'q', ok: ok, run: run})
	}
	type scorer interface{ Score() float64 }
	q("Score", always, func(o any) string { return fmt.Sprint(lib.Score(o)) })
	q("Severity", always, func(o any) string { s, n := lib.Severity(o); return fmt.Sprint(s, n) })
	// heavy use: a "hot object" optimisation only starts after many identical queries (round 6:
	// thresholds 16, 1000, 1024, 2048); whatever it remembers must not survive a later mutation
	q(fmt.Sprintf("Score and Severity, %d times", heavyRounds), always, func(o any) string {
		var sc float64
		var sv string
		var n int
		for i := 0; i < heavyRounds; i++ {
			sc = lib.Score(o)
			sv, n = lib.Severity(o)
		}
		return fmt.Sprint(sc, sv, n)
	})
	q("GetError", always, func(o any) string {
		err := o.(interface{ GetError() error }).GetError()
		if err == nil {
			return "nil"
		}
		return lib.Class(err) + ": " + err.Error()
	})
	q("Encode", always, func(o any) string {
		s, err := o.(interface{ Encode() (string, error) }).Encode()
		return fmt.Sprintf("%q %s", s, lib.Class(err))
	})
	q("String", always, func(o any) string { return o.(fmt.Stringer).String() })
	q("BaseMetrics", func(s *histStart) bool { return s.level >= 1 || s.ver == 3 }, func(o any) string {
		sub := lib.Sub(o, 0)
		return lib.Observe(sub).String()
	})
	q("TemporalMetrics", func(s *histStart) bool { return s.level == 2 }, func(o any) string {
		sub := lib.Sub(o, 1)
		return lib.Observe(sub).String()
	})
	q("IsEmpty", func(s *histStart) bool { return s.ver == 2 && s.level >= 1 && !s.isNil }, func(o any) string {
		_, level := lib.VerLevel(o)
		r := ""
		for lv := 1; lv <= level; lv++ {
			r += fmt.Sprint(lib.IsEmpty(o, lv))
		}
		return r
	})
	for _, l := range []language.Tag{language.English, language.Japanese} {
		l := l
		q("report.New("+l.String()+")", func(s *histStart) bool { return s.ver == 3 && !s.isNil }, func(o any) string { return dump.Of(reportOf(o, l)) })
	}
	q("report.New(no language option)", func(s *histStart) bool { return s.ver == 3 && !s.isNil }, func(o any) string {
		switch x := o.(type) {
		case *v3.Base:
			return dump.Of(report.NewBase(x))
		case *v3.Temporal:
			return dump.Of(report.NewTemporal(x))
		case *v3.Environmental:
			return dump.Of(report.NewEnvironmental(x))
		}
		return ""
	})
	q("report.New(options: the caller-owned slice [ja], which has spare capacity)", func(s *histStart) bool { return s.ver == 3 && !s.isNil }, func(o any) string {
		switch x := o.(type) {
		case *v3.Base:
			return dump.Of(report.NewBase(x, histJaOpts...))
		case *v3.Temporal:
			return dump.Of(report.NewTemporal(x, histJaOpts...))
		case *v3.Environmental:
			return dump.Of(report.NewEnvironmental(x, histJaOpts...))
		}
		return ""
	})
	q("ExportWithString", func(s *histStart) bool { return s.ver == 3 && !s.isNil }, func(o any) string {
		rep := reportOf(o, language.Japanese).(interface {
			ExportWithString(string) (io.Reader, error)
		})
		rd, err := rep.ExportWithString(histTemplate)
		if err != nil {
			return "error " + lib.Class(err)
		}
		b, _ := io.ReadAll(rd)
		return string(b)
	})
	// process history: decode-and-observe other vectors on fresh objects (forced to collide:
	// same metrics with other values, the same vector twice, a rejected vector)
	dvecs := []struct {
		ver, level int
		s          string
	}{
		{3, 2, "CVSS:3.1/AV:N/AC:L/PR:N/UI:R/S:C/C:H/I:L/A:N"},
		{3, 2, "CVSS:3.0/AV:P/AC:H/PR:H/UI:N/S:U/C:N/I:N/A:H/E:F/RL:W/RC:R/MAV:N/MS:C/CR:H"},
		{3, 0, "CVSS:3.1/AV:N/AC:L/PR:N/UI:R/S:C/C:H/I:L/A:Q"},
		{2, 2, "AV:N/AC:L/Au:N/C:N/I:N/A:C/E:F/RL:OF/RC:C/CDP:H/TD:H/CR:M/IR:M/AR:H"},
		{2, 1, "AV:L/AC:M/Au:S/C:N/I:N/A:P/E:POC/RL:TF/RC:C"},
		{2, 2, "AV:L/AC:M/Au:S/C:N/I:N/A:P/RC:C/E:POC"},
		{3, 0, "CVSS:3.0/AV:L/AC:H/PR:H/UI:R/S:U/C:L/I:N/A:H"},
		{3, 1, "CVSS:3.1/AV:A/AC:L/PR:L/UI:N/S:C/C:N/I:H/A:L/E:U/RL:T"},
		{2, 0, "AV:A/AC:H/Au:M/C:C/I:P/A:N"},
		{3, 2, "CVSS:3.1/AV:N/AC:L/PR:N/UI:R/S:C/C:H/I:L/A:N/MS:H"},
		// v2 vectors without one of the optional groups (whatever marks a group as present must be per object)
		{2, 2, "AV:L/AC:H/Au:N/C:C/I:C/A:C/CDP:H/TD:H/CR:M/IR:M/AR:M"},
		{2, 2, "AV:L/AC:H/Au:N/C:C/I:C/A:C"},
		{2, 1, "AV:N/AC:M/Au:N/C:P/I:P/A:P"},
	}
	for _, d := range dvecs {
		d := d
		ops = append(ops, histOp{name: fmt.Sprintf("decode-elsewhere v%d/%s %s", d.ver, spec.LevelNames[d.level], d.s), kind: 'd', ok: always, run: func(any) string {
			o, err, pan := lib.DecodeNew(d.ver, d.level, d.s)
			if o == nil {
				return fmt.Sprintf("rejected %s panic=%q", lib.Class(err), pan)
			}
			return observables(o)
		}})
		ops = append(ops, histOp{name: fmt.Sprintf("decode-elsewhere through a nil receiver v%d/%s %s", d.ver, spec.LevelNames[d.level], d.s), kind: 'd', ok: always, run: func(any) string {
			o, err, pan := lib.Decode(lib.Nil(d.ver, d.level), d.s)
			if o == nil {
				return fmt.Sprintf("rejected %s panic=%q", lib.Class(err), pan)
			}
			return observables(o)
		}})
	}
	// process history: a vector decoded THROUGH THE VIEWS of a nil receiver and of a fresh constructor
	// result elsewhere — x := (nil).TemporalMetrics(); x.Decode(v) allocates its own object in the
	// pinned library; an accessor that hands out one shared stand-in instead of nil would make every
	// later view of a nil receiver show this vector (round 6, C15-B-r6)
	for _, d := range []struct {
		ver   int
		s0, s string
	}{{3, "CVSS:3.1/AV:N/AC:L/PR:N/UI:N/S:U/C:H/I:H/A:H", "CVSS:3.1/AV:N/AC:L/PR:N/UI:N/S:U/C:H/I:H/A:H/E:F/RL:O/RC:C"}, {2, "AV:N/AC:L/Au:N/C:C/I:C/A:C", "AV:N/AC:L/Au:N/C:C/I:C/A:C/E:F/RL:OF/RC:C"}} {
		d := d
		ops = append(ops, histOp{name: fmt.Sprintf("decode-elsewhere through the views of nil receivers and of fresh objects v%d %s", d.ver, d.s), kind: 'd', ok: always, run: func(any) string {
			var b strings.Builder
			for level := 1; level < 3; level++ {
				for _, recv := range []any{lib.Nil(d.ver, level), lib.New(d.ver, level)} {
					for lv := level - 1; lv >= 0; lv-- {
						b.WriteString(safeRun(func() string {
							view := lib.Sub(recv, lv)
							in := d.s0
							if lv == 1 {
								in = d.s
							}
							o, err, pan := lib.Decode(view, in)
							if o == nil {
								return fmt.Sprintf("rejected %s panic=%q;", lib.Class(err), pan)
							}
							return observables(o) + ";"
						}))
					}
				}
			}
			return b.String()
		}})
	}
	// process history: reports built elsewhere with unusual option lists (a nil option panics in
	// the pinned library; the panic is recovered and part of the result) — whatever they do must
	// not leak into later reports (round 4, C17-A-r4: options applied to a shared default)
	for _, ol := range []struct {
		name string
		opts []report.ReportOptionsFunc
	}{
		{"[ja]", []report.ReportOptionsFunc{report.WithOptionsLanguage(language.Japanese)}},
		{"[nil, ja]", []report.ReportOptionsFunc{nil, report.WithOptionsLanguage(language.Japanese)}},
		{"[ja, nil]", []report.ReportOptionsFunc{report.WithOptionsLanguage(language.Japanese), nil}},
		{"[ja, und]", []report.ReportOptionsFunc{report.WithOptionsLanguage(language.Japanese), report.WithOptionsLanguage(language.Und)}},
		{"[fr, ja]", []report.ReportOptionsFunc{report.WithOptionsLanguage(language.French), report.WithOptionsLanguage(language.Japanese)}},
	} {
		ol := ol
		ops = append(ops, histOp{name: "report-elsewhere with the option list " + ol.name, kind: 'd', ok: always, run: func(any) string {
			// a nil option is outside every property; what the call does (the pinned library panics)
			// is recorded as its result, not judged
			return func() (res string) {
				defer func() {
					if x := recover(); x != nil {
						res = fmt.Sprintf("the call panicked: %v", x)
					}
				}()
				em, err := v3.NewEnvironmental().Decode("CVSS:3.1/AV:N/AC:L/PR:N/UI:R/S:C/C:H/I:L/A:N/E:F/MS:U")
				if err != nil {
					return "rejected"
				}
				return dump.Of(report.NewEnvironmental(em, ol.opts...)) + dump.Of(report.NewBase(em.BaseMetrics(), ol.opts...))
			}()
		}})
	}
	ops = append(ops, histOp{name: "a report is built elsewhere from the empty prefix of the caller-owned option slice", kind: 'd', ok: always, run: func(any) string {
		em, err := v3.NewEnvironmental().Decode("CVSS:3.0/AV:L/AC:H/PR:L/UI:N/S:C/C:H/I:H/A:H/E:P/RL:T/RC:U")
		if err != nil {
			return "rejected"
		}
		return dump.Of(report.NewEnvironmental(em, histCommonOpts...)) + dump.Of(report.NewTemporal(em.TemporalMetrics(), histCommonOpts...))
	}})
	ops = append(ops, histOp{name: "the decoder that failed before this object was made retries a Decode", kind: 'd',
		ok: func(s *histStart) bool { return s.companion },
		run: func(o any) string {
			x, ok := histCompanions.Load(o)
			if !ok {
				return "no companion"
			}
			_, err, pan := lib.Decode(x, "CVSS:3.1/AV:N/AC:L/AC:L")
			return fmt.Sprintf("retry: %s panic=%q", lib.Class(err), pan)
		}})
	ops = append(ops, histOp{name: "the garbage collector runs (runtime.GC x2, finalizers get their turn)", kind: 'd', ok: always, run: func(any) string {
		for i := 0; i < 2; i++ {
			runtime.GC()
			runtime.Gosched()
			time.Sleep(time.Millisecond)
		}
		return ""
	}})
	ops = append(ops, histOp{name: "fresh objects of every type are constructed (and dropped)", kind: 'd', ok: always, run: func(any) string {
		for _, ver := range []int{3, 2} {
			for level := 0; level < 3; level++ {
				lib.New(ver, level)
				lib.New(ver, level)
			}
		}
		return ""
	}})
	// mutations of the version label and of the embedded pointers
	for _, vv := range []struct {
		n string
		v int
	}{{"3.0", int(v3.V3_0)}, {"3.1", int(v3.V3_1)}, {"unknown", int(v3.VUnknown)}} {
		vv := vv
		ops = append(ops, histOp{name: "set Ver=" + vv.n, kind: 'm', ok: func(s *histStart) bool { return s.ver == 3 && !s.isNil }, run: func(o any) string { lib.SetV3Ver(o, vv.v); return "" }})
	}
	// a second Decode on the live object that supplies only metrics it does not hold yet (the
	// library's decoders accept vectors in instalments); judged differentially like any mutation
	for _, inst := range []struct {
		ver, level int
		s          string
	}{{3, 1, "CVSS:3.1/E:U/RL:O/RC:U"}, {3, 2, "CVSS:3.1/E:U/RL:O/RC:U/CR:H/MS:C"}, {3, 2, "CVSS:3.0/MAV:P/AR:L"}, {2, 1, "E:U/RL:OF/RC:UC"}, {2, 2, "CDP:H/TD:H/CR:L/IR:L/AR:L"}} {
		inst := inst
		ops = append(ops, histOp{name: "Decode(" + inst.s + ") on the same object", kind: 'm',
			ok:  func(s *histStart) bool { return !s.isNil && s.ver == inst.ver && s.level == inst.level && s.decoded },
			run: func(o any) string { lib.Decode(o, inst.s); return "" }})
	}
	// a constructor result whose fields were assigned, then Decode of exactly the vector it already
	// holds: the fields stay what they are, the private table of written names fills (round 7,
	// C15-B-r7: an Encode memo re-validated against the exported fields only)
	ops = append(ops, histOp{name: "Decode(the vector whose values the object already holds by assignment) on the same object", kind: 'm',
		ok: func(s *histStart) bool {
			return s.ver == 3 && s.tokens != nil && strings.Contains(s.id, "built by assigning")
		},
		run: func(o any) string {
			_, lv := lib.VerLevel(o)
			tok := map[string]string{}
			for _, m := range spec.UpTo(3, lv) {
				if k, ok := lib.Field(o, m.Name); ok {
					tok[m.Name] = lib.EnumOf(3, m.Name).Str(k)
				}
			}
			lib.Decode(o, canonicalWritten(3, lv, lib.V3Ver(o), tok))
			return ""
		}})
	ops = append(ops, histOp{name: "replace the embedded lower-level object by that of another decoded vector", kind: 'm',
		ok: func(s *histStart) bool { return !s.isNil && s.level >= 1 && (thorough || s.decoded) },
		run: func(o any) string {
			switch x := o.(type) {
			case *v3.Temporal:
				d, _ := v3.NewTemporal().Decode("CVSS:3.0/AV:P/AC:H/PR:H/UI:R/S:U/C:L/I:L/A:N/E:U")
				x.Base = d.Base
			case *v3.Environmental:
				d, _ := v3.NewEnvironmental().Decode("CVSS:3.0/AV:P/AC:H/PR:H/UI:R/S:U/C:L/I:L/A:N/E:U/CR:L")
				x.Temporal = d.Temporal
			case *v2.Temporal:
				d, _ := v2.NewTemporal().Decode("AV:L/AC:H/Au:M/C:P/I:N/A:N/E:U/RL:OF/RC:UC")
				x.Base = d.Base
			case *v2.Environmental:
				d, _ := v2.NewEnvironmental().Decode("AV:L/AC:H/Au:M/C:P/I:N/A:N/E:U/RL:OF/RC:UC/CDP:L/TD:L/CR:L/IR:L/AR:L")
				x.Temporal = d.Temporal
			}
			return ""
		}})
	// mutations: single exported fields
	for _, ver := range []int{3, 2} {
		ver := ver
		for _, m := range spec.Metrics(ver) {
			m := m
			en := lib.EnumOf(ver, m.Name)
			vals := map[string]int{"unknown": en.Unknown, "first": en.Consts[0], "last": en.Consts[len(en.Consts)-1]}
			if !thorough {
				delete(vals, "first")
			}
			names := []string{}
			for k := range vals {
				names = append(names, k)
			}
			sort.Strings(names)
			for _, vn := range names {
				val := vals[vn]
				ops = append(ops, histOp{name: fmt.Sprintf("set %s=%s(%d)", m.Name, vn, val), kind: 'm',
					ok: func(s *histStart) bool {
						if s.isNil || s.ver != ver || m.Level > s.level {
							return false
						}
						// quick: mutate a representative subset of fields
						return thorough || m.Level == s.level || m.Name == "AV" || m.Name == "C" || m.Name == "S"
					},
					run: func(o any) string { lib.SetField(o, m.Name, val); return "" }})
			}
		}
	}
	_ = nonNil
	_ = v2.SeverityLow
	return ops
}

// histPristine is the table of results computed in pristine processes (shared with
// neighbourOrders).
var histPristine map[string]string

type histPath struct {
	ops  []int
	muts int
}

func logicalKey(start int, ops []histOp, path []int) string {
	var b strings.Builder
	fmt.Fprintf(&b, "%d", start)
	for _, i := range path {
		if ops[i].kind == 'm' {
			b.WriteString("|" + ops[i].name)
		}
	}
	return b.String()
}

func describePath(st *histStart, ops []histOp, path []int) []string {
	d := []string{"start: " + st.id}
	for _, i := range path {
		d = append(d, ops[i].name)
	}
	return d
}

func histKey(o any) [32]byte {
	return sha256.Sum256([]byte(dump.Of(o) + "\x00" + globalsDump()))
}

// histRun shards the start objects over worker processes (each worker is sequential and
// deterministic; package-level state is per process) and merges what they report.
func histRun(r *ev.Run, thorough bool) {
	if !haveGlobals {
		r.Infra("this binary was built without the generated package-level-variable dump (-tags verifdump with the gendump overlay); run through ./check")
		return
	}
	exe, err := os.Executable()
	if err != nil {
		r.Infra("cannot locate own executable: " + err.Error())
		return
	}
	pristine := pristineTable(r, thorough)
	histPristine = pristine
	pf, err := os.CreateTemp("", "verif-pristine-*.json")
	if err != nil {
		r.Infra("cannot create a temporary file: " + err.Error())
		return
	}
	defer os.Remove(pf.Name())
	pb, _ := json.Marshal(pristine)
	pf.Write(pb)
	pf.Close()
	n := runtime.NumCPU()
	var mu sync.Mutex
	safeParallel(r, n, func(i int) {
		cmd := exec.Command(exe, "hist-worker", r.Tier, fmt.Sprint(i), fmt.Sprint(n), pf.Name())
		var out bytes.Buffer
		cmd.Stdout = &out
		cmd.Stderr = os.Stderr
		if err := cmd.Run(); err != nil {
			r.Infra(fmt.Sprintf("history worker %d failed: %v", i, err))
			return
		}
		mu.Lock()
		defer mu.Unlock()
		if err := r.Merge(out.Bytes()); err != nil {
			r.Infra(fmt.Sprintf("history worker %d: %v", i, err))
		}
	})
	r.Set("pristine_process_results_compared", int64(len(pristine)))
	r.Set("package_level_variables_dumped", int64(globalsCount()))
	r.Set("start_objects", int64(len(histStarts(thorough))))
	r.Set("operations", int64(len(histOps(thorough))))
	depth, maxMut := 3, 1
	if thorough {
		depth, maxMut = 4, 2
	}
	r.Set("depth_bound", int64(depth))
	r.Set("mutation_bound", int64(maxMut))
	r.Set("worker_processes", int64(n))
}

// histWorkerMain: one shard of the history search.
func histWorkerMain(args []string) {
	r := ev.New("C15", args[0], "model_checking")
	i, _ := strconv.Atoi(args[1])
	n, _ := strconv.Atoi(args[2])
	if b, err := os.ReadFile(args[3]); err == nil {
		json.Unmarshal(b, &histPristine)
	}
	histShard(r, args[0] == "thorough", i, n)
	os.Stdout.Write(r.Export())
}

func histShard(r *ev.Run, thorough bool, shard, shards int) {
	depth, maxMut := 3, 1
	if thorough {
		depth, maxMut = 4, 2
	}
	starts := histStarts(thorough)
	ops := histOps(thorough)
	g0 := sha256.Sum256([]byte(globalsDump()))
	first := map[string]string{}    // logical key + op -> first result
	firstObs := map[string]string{} // logical key -> observables
	firstD := map[string]string{}
	firstPath := map[string][]string{}
	var states, transitions, globalsChanged, dumpChanged int64
	outcomes := map[string]bool{}
	pristine := histPristine
	// caps: on the pinned tree a start object has a few dozen states.  A change that makes every
	// operation alter package-level state (an allocator, a counter) makes every history a new state;
	// the search then stops expanding at the cap and the run says so (exhaustive=false).
	stateCap, budget := int64(3000), 4*time.Minute
	if thorough {
		stateCap, budget = 40000, 40*time.Minute
	}
	t0 := time.Now()
	var capped int64
	// depth-major: every start object of this shard is expanded to depth 1 before any is expanded
	// to depth 2, and so on — when a change makes the state space explode and the time budget ends
	// the search, the short histories of ALL start objects have been explored (round 6: a start
	// object late in the list was never reached, and a depth-1 violation went unreported)
	type startCtx struct {
		si       int
		st       *histStart
		seen     map[[32]byte]bool
		frontier []histPath
		nstates  int64
		capped   bool
	}
	var ctxs []*startCtx
	for si := range starts {
		if si%shards != shard {
			continue
		}
		st := &starts[si]
		c := &startCtx{si: si, st: st, seen: map[[32]byte]bool{}, frontier: []histPath{{}}}
		o0 := st.make()
		c.seen[histKey(o0)] = true // the state key is taken before anything is queried
		obs0 := safeRun(func() string { return observables(o0) })
		if st.isNil {
			obs0 = safeRun(func() string { return lib.Observe(o0).String() })
		}
		firstObs[logicalKey(si, ops, nil)] = obs0
		states++
		ctxs = append(ctxs, c)
	}
	for d := 0; d < depth; d++ {
		for _, c := range ctxs {
			si, st, seen, frontier := c.si, c.st, c.seen, c.frontier
			if len(frontier) == 0 || c.capped {
				continue
			}
			var next []histPath
			for _, p := range frontier {
				if c.nstates > stateCap || (d > 0 && time.Since(t0) > budget) || r.Violations() > 200 {
					capped++
					c.capped = true
					break
				}
				for oi := range ops {
					op := &ops[oi]
					if !op.ok(st) || (op.kind == 'm' && p.muts >= maxMut) {
						continue
					}
					// replay the path on a fresh object
					o := st.make()
					for _, pi := range p.ops {
						pi := pi
						safeRun(func() string { return ops[pi].run(o) })
					}
					obsOf := func() string {
						if st.isNil {
							return safeRun(func() string { return lib.Observe(o).String() })
						}
						return safeRun(func() string { return observables(o) })
					}
					lk := logicalKey(si, ops, p.ops)
					before := ""
					if op.kind != 'm' {
						// (for mutations nothing is queried first, so that the reference value
						// recorded for the mutated state comes from the shortest history)
						before = obsOf()
					}
					dumpBefore := ""
					res := safeRun(func() string { return op.run(o) })
					transitions++
					outcomes[res] = true
					full := append(append([]int{}, p.ops...), oi)
					cs := map[string]any{"history": describePath(st, ops, full)}
					if strings.HasPrefix(res, "PANIC") && !st.panicOK {
						r.Violate(ev.Violation{Kind: "operation-panics", Case: cs, Observed: res, Expected: "no panic"})
						continue
					}
					switch op.kind {
					case 'q', 'd':
						after := obsOf()
						if after != before {
							r.Violate(ev.Violation{Kind: "query-modifies-object", Case: cs, Observed: after, Expected: before + "  (observables before the operation)"})
						}
						if exp, ok := firstObs[lk]; ok && before != exp {
							r.Violate(ev.Violation{Kind: "observables-depend-on-history", Case: with(cs, "shorter_history", firstPath["obs|"+lk]), Observed: before, Expected: exp})
						}
						key := lk + "|" + op.name
						tab := first
						if op.kind == 'd' {
							key, tab = op.name, firstD
						}
						if exp, ok := tab[key]; ok {
							if res != exp {
								r.Violate(ev.Violation{Kind: "result-depends-on-history", Case: with(cs, "other_history", firstPath[key]), Observed: res, Expected: exp})
							}
						} else {
							tab[key] = res
							firstPath[key] = describePath(st, ops, full)
							if pv, ok := pristine[key]; ok && pv != hashStr(res) {
								r.Violate(ev.Violation{Kind: "result-differs-from-pristine-process", Case: cs, Observed: res, Expected: "the result of the same single operation as the first thing a fresh process does (hash " + pv + ")"})
							}
						}
					case 'm':
						after := obsOf()
						lk2 := logicalKey(si, ops, full)
						if exp, ok := firstObs[lk2]; ok {
							if after != exp {
								r.Violate(ev.Violation{Kind: "observables-depend-on-history", Case: with(cs, "shorter_history", firstPath["obs|"+lk2]), Observed: after, Expected: exp})
							}
						} else {
							firstObs[lk2] = after
							firstPath["obs|"+lk2] = describePath(st, ops, full)
						}
					}
					// the successor's state key comes from a second, unobserved replay: the harness's own
					// observation queries must not be part of the state (a memo filled by them would make
					// "queried" and "not yet queried" look alike)
					oc := st.make()
					for _, pi := range p.ops {
						pi := pi
						safeRun(func() string { return ops[pi].run(oc) })
					}
					dumpBefore = dump.Of(oc)
					safeRun(func() string { return op.run(oc) })
					if op.kind != 'm' && dump.Of(oc) != dumpBefore {
						dumpChanged++
					}
					k := histKey(oc)
					if seen[k] {
						continue
					}
					seen[k] = true
					states++
					c.nstates++
					np := histPath{ops: full, muts: p.muts}
					if op.kind == 'm' {
						np.muts++
					}
					next = append(next, np)
				}
			}
			c.frontier = next
		}
	}
	if sha256.Sum256([]byte(globalsDump())) != g0 {
		globalsChanged = 1
	}
	r.Add("states", states)
	r.Add("transitions", transitions)
	r.Add("traces_validated_against_impl", transitions)
	r.Add("evaluations", transitions)
	r.Add("distinct_results_observed_summed_over_workers", int64(len(outcomes)))
	r.Add("history_search_caps_hit", capped)
	r.Add("workers_that_saw_package_level_state_change", globalsChanged)
	r.Add("queries_that_changed_private_object_state", dumpChanged)
	if shard == 0 {
		r.Sample(map[string]any{"history": describePath(&starts[len(starts)/2], ops, []int{0, len(ops) - 1, 0})})
	}
}

func hashStr(s string) string {
	h := sha256.Sum256([]byte(s))
	return fmt.Sprintf("%x", h[:8])
}

// pristineTable computes, each in its own fresh process, the result of every single operation on
// every start object, of every process-history operation, and of every neighbour vector (I3).
// One process per entry: nothing has been decoded, scored or reported before it in that process.
func pristineTable(r *ev.Run, thorough bool) map[string]string {
	exe, err := os.Executable()
	if err != nil {
		r.Infra("cannot locate own executable: " + err.Error())
		return nil
	}
	type entry struct {
		key  string
		args []string
	}
	var entries []entry
	starts, ops := histStarts(thorough), histOps(thorough)
	seenD := map[string]bool{}
	for si := range starts {
		for oi := range ops {
			op := &ops[oi]
			if op.kind == 'm' || !op.ok(&starts[si]) {
				continue
			}
			key := logicalKey(si, ops, nil) + "|" + op.name
			if op.kind == 'd' {
				key = op.name
				if seenD[key] {
					continue
				}
				seenD[key] = true
			}
			entries = append(entries, entry{key, []string{"op", fmt.Sprint(si), fmt.Sprint(oi)}})
		}
	}
	for si, set := range neighbourSets(thorough) {
		for vi, v := range set {
			entries = append(entries, entry{"nb|" + v.s, []string{"nb", fmt.Sprint(si), fmt.Sprint(vi)}})
		}
	}
	tab := make(map[string]string, len(entries))
	var mu sync.Mutex
	var failed int64
	safeParallel(r, len(entries), func(i int) {
		e := entries[i]
		cmd := exec.Command(exe, append([]string{"hist-entry", r.Tier}, e.args...)...)
		var out bytes.Buffer
		cmd.Stdout = &out
		if err := cmd.Run(); err != nil {
			atomic.AddInt64(&failed, 1)
			return
		}
		mu.Lock()
		tab[e.key] = strings.TrimSpace(out.String())
		mu.Unlock()
	})
	if failed > 0 {
		r.Infra(fmt.Sprintf("%d pristine child processes failed", failed))
	}
	return tab
}

// histEntryMain: one entry of the pristine table, computed as the first thing this process does.
func histEntryMain(args []string) {
	thorough := args[0] == "thorough"
	a, _ := strconv.Atoi(args[2])
	b, _ := strconv.Atoi(args[3])
	switch args[1] {
	case "op":
		starts, ops := histStarts(thorough), histOps(thorough)
		o := starts[a].make()
		fmt.Println(hashStr(safeRun(func() string { return ops[b].run(o) })))
	case "nb":
		fmt.Println(hashStr(processNeighbour(neighbourSets(thorough)[a][b])))
	}
}

func init() {
	register("C15", "model_checking", func(r *ev.Run, thorough bool) {
		r.Phase("revisit distances", func() { revisitDistances(r, thorough) })
		r.Phase("long churn", func() { longChurn(r, thorough) })
		r.Phase("history search", func() { histRun(r, thorough) })
		r.Phase("vector processing orders", func() { processingOrders(r, thorough) })
		r.Phase("neighbour processing orders", func() { neighbourOrders(r, thorough) })
		r.Phase("first use in fresh processes", func() { firstUse(r, decodeFirstUseEntries([]int{3, 2}, []int{0, 1, 2})) })
		r.Phase("other process histories and environments", func() {
			historyVariantsFor(r, 3, 0)
			historyVariantsFor(r, 2, 0)
			historyAndEnvironment(r, [][]string{{"reports", "ja"}, {"reports", "und"}, {"namesall", "und"}, {"namesall", "ja"}}, []string{"v2-first", "both"})
		})
		r.Phase("map iteration orders", func() { mergeMapOrder(r) })
		r.Set("exhaustive", r.Get("history_search_caps_hit") == 0)
		r.Set("rule", "breadth-first search over operation sequences (queries: Score, Severity, GetError, Encode, String, BaseMetrics, TemporalMetrics, IsEmpty, report.New* en/ja, ExportWithString; single-field mutations; decodes of other colliding vectors on fresh objects) applied to live objects (decoded at every level and version, left behind by failed decodes, fresh, nil); state key = reflective dump of the live object + dump of every package-level variable of every library package (generated at check time from the current tree); successors by replay on a fresh object; invariants I1-I3 of DESIGN.md 5.3; plus all orders of processing 6 colliding vectors up to depth 3/4, plus every ordered pair (u, v) of the single-metric neighbours (every alternative value of every metric, and the other version) of background vectors: v processed after u must give what v gives first")
		r.Assume("results are compared between histories (differential oracle) and with a pristine child process; nothing is assumed about what the right result is")
		r.Assume("private (unexported) state may change as long as observables and results agree; such changes only add states")
	})
}

// longChurn: far more distinct vectors than any plausible bounded table holds — 9,000 in the quick
// tier (above 8,192), 70,000 in the thorough tier (above 65,536) — are decoded once each at every
// decoder of both versions (v3: with the metric tokens rotated, so that the base decoder sees that
// many distinct strings too); then the oldest vectors are decoded again one after the other, a
// vector new to the process between every two of them; every repeated decode must give what the
// first one gave (round 7, C15-A-r7: a second-chance eviction that removes the wrong index key
// once the table is full and the entry under the clock hand was hit).
func longChurn(r *ev.Run, thorough bool) {
	N := 9000
	if thorough {
		N = 70000
	}
	var n int64
	for _, ver := range []int{3, 2} {
		for level := 0; level < 3; level++ {
			if ver == 2 && level == 0 {
				continue // only 729 valid strings
			}
			ms := spec.UpTo(ver, level)
			total := uint64(1)
			for _, m := range ms {
				total *= uint64(len(m.Codes))
			}
			vec := func(k uint64) string {
				i := (k*1000003 + 777) % total
				toks := make([]string, len(ms))
				for j := len(ms) - 1; j >= 0; j-- {
					c := uint64(len(ms[j].Codes))
					toks[j] = ms[j].Name + ":" + ms[j].Codes[i%c].Code
					i /= c
				}
				if ver == 2 {
					return strings.Join(toks, "/")
				}
				rot := int(k/total+k) % len(toks) // distinct strings even where the value domain is small
				return "CVSS:" + spec.V3Versions[k%2] + "/" + strings.Join(append(append([]string{}, toks[rot:]...), toks[:rot]...), "/")
			}
			dec := func(s string) string {
				o, err, pan := lib.DecodeNew(ver, level, s)
				n++
				if o == nil {
					return fmt.Sprintf("rejected %s panic=%q", lib.Class(err), pan)
				}
				return hashStr(observables(o))
			}
			// N strings that are pairwise distinct
			seen := map[string]bool{}
			var strs []string
			for k := uint64(0); len(strs) < N+400 && k < uint64(8*N); k++ {
				if v := vec(k); !seen[v] {
					seen[v] = true
					strs = append(strs, v)
				}
			}
			if len(strs) < N+400 {
				continue
			}
			first := make([]string, N)
			for k := 0; k < N; k++ {
				first[k] = dec(strs[k])
			}
			// the oldest survivors of a table of 2^k entries sit at N-2^k: around each such place (and
			// at the very beginning) decode vector j again, one new vector, vector j+1 again
			fresh := N
			bad := false
			for _, start := range []int{N - 8192, N - 4096, N - 2048, N - 1024, N - 512, N - 256, N - 65536, N - 32768, N - 16384, 0} {
				if start < 0 || bad {
					continue
				}
				for j := start; j < start+12 && j+1 < N && !bad; j++ {
					for _, idx := range []int{j, j + 1} {
						if got := dec(strs[idx]); got != first[idx] {
							r.Violate(ev.Violation{Kind: "result-depends-on-what-was-decoded-before", Case: map[string]any{"cvss": ver, "decoder": spec.LevelNames[level], "vector": strs[idx],
								"history": fmt.Sprintf("%d distinct vectors decoded once each on fresh objects (this one was number %d); then, from number %d on: decode vector j again, decode one vector new to the process, decode vector j+1 again", N, idx, start)},
								Observed: "hash " + got, Expected: "hash " + first[idx] + " (its first decode)"})
							bad = true
							break
						}
						if idx == j && fresh < len(strs) {
							dec(strs[fresh])
							fresh++
						}
					}
				}
			}
		}
	}
	r.Add("long_churn_decodes", n)
	r.Add("evaluations", n)
}

// revisitDistances: long single-goroutine histories of fresh-object decodes.  For every distance
// d = 1..maxD: decode X, decode d further vectors never seen before (the last one is Y), decode X
// again, decode Y again; the two repeated decodes must give what the first ones gave.  Every
// vector is new to the process when first decoded (and the object decoded from X is kept and
// queried again after the d further constructions: round 5, C13-A-r5, an instance allocator that
// re-issues a chunk its callers still hold), so whatever the library remembers between
// decodes (a bounded cache, a ring, an index) is driven through every fill level and every
// revisit distance up to maxD — 272 in the quick tier (rings of up to 256 entries wrap), 1,100 in
// the thorough tier (round 5, C05-A-r5: a 256-entry decode cache whose index goes stale when a
// hit in the older half is promoted).
func revisitDistances(r *ev.Run, thorough bool, vers ...int) {
	maxD := 272
	if thorough {
		maxD = 1100
	}
	if len(vers) == 0 {
		vers = []int{2, 3}
	}
	var n int64
	for _, ver := range vers {
		for _, level := range []int{2, 1} {
			ms := spec.UpTo(ver, level)
			total := uint64(1)
			for _, m := range ms {
				total *= uint64(len(m.Codes))
			}
			next := uint64(0)
			var lastObj any
			fresh := func() (string, string) {
				i := (next*1000003 + 12345) % total
				next++
				tok := map[string]string{}
				for k := len(ms) - 1; k >= 0; k-- {
					c := uint64(len(ms[k].Codes))
					tok[ms[k].Name] = ms[k].Codes[i%c].Code
					i /= c
				}
				label := ""
				if ver == 3 {
					label = spec.V3Versions[next%2]
				}
				s := canonicalWritten(ver, level, label, tok)
				o, err, pan := lib.DecodeNew(ver, level, s)
				n++
				lastObj = o
				if o == nil {
					return s, fmt.Sprintf("rejected %s panic=%q", lib.Class(err), pan)
				}
				return s, observables(o)
			}
			again := func(s, want string, d int, what string) {
				o, err, pan := lib.DecodeNew(ver, level, s)
				n++
				got := ""
				if o == nil {
					got = fmt.Sprintf("rejected %s panic=%q", lib.Class(err), pan)
				} else {
					got = observables(o)
				}
				if got != want {
					r.Violate(ev.Violation{Kind: "result-depends-on-what-was-decoded-before", Case: map[string]any{"cvss": ver, "decoder": spec.LevelNames[level], "vector": s,
						"history": fmt.Sprintf("%s: decode X, decode %d vectors new to the process (the last is Y), decode X again, decode Y again; all on fresh objects, one goroutine, earlier distances before it", what, d)},
						Observed: got, Expected: want + "  (what the first decode of this vector returned)"})
				}
			}
			bad := r.Violations()
			for d := 1; d <= maxD && r.Violations() < bad+3; d++ {
				if next+uint64(d)+2 > total {
					break // the domain of this level is used up: every vector was new so far
				}
				x, xo := fresh()
				xobj := lastObj // the object itself is kept, too
				var y, yo string
				for k := 0; k < d; k++ {
					y, yo = fresh()
				}
				if xobj != nil {
					n++
					if got := safeRun(func() string { return observables(xobj) }); got != xo {
						r.Violate(ev.Violation{Kind: "held-object-changes", Case: map[string]any{"cvss": ver, "decoder": spec.LevelNames[level], "vector": x,
							"history": fmt.Sprintf("decode X and keep the object, construct and decode %d further objects, query X again", d)}, Observed: got, Expected: xo + "  (what X answered right after its decode)"})
					}
				}
				again(x, xo, d, "X")
				again(y, yo, d, "Y")
			}
		}
	}
	r.Add("revisit_distance_decodes", n)
	r.Add("evaluations", n)
}

// mergeMapOrder adds what the map-order explorer (mc/cmd/sched maporder, run by ./check before
// this binary) found.  When the instrumented build could not be produced for the current tree
// that phase is reported as not run; it is not evidence against the library.
func mergeMapOrder(r *ev.Run) {
	f := os.Getenv("VERIF_MAPORDER_RESULT")
	if f == "" {
		r.Set("map_order_exploration", "not run ("+os.Getenv("VERIF_MAPORDER_REASON")+")")
		return
	}
	b, err := os.ReadFile(f)
	if err != nil {
		r.Infra("map-order result unreadable: " + f)
		return
	}
	if err := r.Merge(b); err != nil {
		r.Infra("map-order result: " + err.Error())
		return
	}
	r.Set("map_order_exploration", "completed")
	r.Add("evaluations", r.Get("maporder_executions"))
}

// processingOrders: all sequences of <= depth vectors out of 6 colliding ones, each decoded and
// fully observed on a fresh object; every result must equal the first result for that vector.
func processingOrders(r *ev.Run, thorough bool) {
	type pv struct {
		ver, level int
		s          string
	}
	vecs := []pv{
		{3, 2, "CVSS:3.1/AV:N/AC:L/PR:N/UI:R/S:C/C:H/I:L/A:N/E:F/MS:U"},
		{3, 2, "CVSS:3.0/AV:P/AC:H/PR:H/UI:N/S:U/C:N/I:N/A:H/E:U/MS:C"},
		{3, 1, "CVSS:3.1/AV:N/AC:L/PR:N/UI:R/S:C/C:H/I:L/A:N/E:F"},
		{3, 0, "CVSS:3.1/AV:N/AC:L/PR:N/UI:R/S:C/C:H/I:L/A:N/A:N"},
		{2, 2, "AV:N/AC:L/Au:N/C:N/I:N/A:C/E:F/RL:OF/RC:C/CDP:H/TD:H/CR:M/IR:M/AR:H"},
		{2, 2, "AV:L/AC:H/Au:M/C:C/I:C/A:N/CDP:L/TD:L/CR:L/IR:H/AR:ND"},
	}
	depth := 3
	if thorough {
		depth = 4
	}
	process := func(v pv) string {
		o, err, pan := lib.DecodeNew(v.ver, v.level, v.s)
		if o == nil {
			return fmt.Sprintf("rejected %s panic=%q", lib.Class(err), pan)
		}
		res := observables(o)
		if v.ver == 3 {
			res += "|" + safeRun(func() string { return dump.Of(reportOf(o, language.Japanese)) })
		}
		return res
	}
	firstRes := map[int]string{}
	var n int64
	var rec func(seq []int)
	rec = func(seq []int) {
		if len(seq) > 0 {
			n++
			for _, i := range seq {
				res := process(vecs[i])
				if exp, ok := firstRes[i]; ok {
					if res != exp {
						hist := []string{}
						for _, j := range seq {
							hist = append(hist, vecs[j].s)
						}
						r.Violate(ev.Violation{Kind: "result-depends-on-processing-order", Case: map[string]any{"processed_in_order": hist, "vector": vecs[i].s}, Observed: res, Expected: exp})
					}
				} else {
					firstRes[i] = res
				}
			}
		}
		if len(seq) == depth {
			return
		}
		for i := range vecs {
			rec(append(append([]int{}, seq...), i))
		}
	}
	rec(nil)
	r.Add("processing_orders", n)
	r.Add("evaluations", n)
}

// neighbourOrders: for background vectors B, the set N(B) = {B} + every vector that differs from B
// in exactly one metric (all alternative values) + the same bodies under the other version; every
// ordered pair (u, v) of N(B) is processed u then v on fresh objects in this one process, and v's
// complete observables must equal those recorded the first time v was processed.  A cache keyed
// by an incomplete or colliding digest of the metrics makes some pair differ.
type nv struct {
	ver, level int
	s          string
}

func neighbourSets(thorough bool) [][]nv {
	var sets [][]nv
	for _, bg := range reportBackgrounds() {
		var set []nv
		for _, t := range deviationVectors(bg.tok, 1) {
			for _, verLabel := range spec.V3Versions {
				set = append(set, nv{3, 2, canonicalWritten(3, 2, verLabel, t)})
			}
		}
		sets = append(sets, set)
		if !thorough && len(sets) == 2 {
			break
		}
	}
	v2bgs := []map[string]string{
		{"AV": "N", "AC": "L", "Au": "N", "C": "P", "I": "C", "A": "N", "E": "F", "RL": "OF", "RC": "C", "CDP": "LM", "TD": "M", "CR": "H", "IR": "M", "AR": "L"},
		{"AV": "L", "AC": "H", "Au": "M", "C": "C", "I": "N", "A": "P", "E": "POC", "RL": "W", "RC": "UR", "CDP": "H", "TD": "H", "CR": "L", "IR": "H", "AR": "ND"},
	}
	for _, bg := range v2bgs {
		var set []nv
		set = append(set, nv{2, 2, canonicalWritten(2, 2, "", bg)})
		for _, m := range spec.V2 {
			for _, c := range m.Codes {
				if c.Code == bg[m.Name] {
					continue
				}
				t := copyTok(bg)
				t[m.Name] = c.Code
				set = append(set, nv{2, 2, canonicalWritten(2, 2, "", t)})
			}
		}
		sets = append(sets, set)
	}
	return sets
}

func processNeighbour(v nv) string {
	o, err, pan := lib.DecodeNew(v.ver, v.level, v.s)
	if o == nil {
		return fmt.Sprintf("rejected %s panic=%q", lib.Class(err), pan)
	}
	res := observables(o)
	for lv := 0; lv < v.level; lv++ {
		res += "|" + lib.Observe(lib.Sub(o, lv)).String()
	}
	res += "|" + observables(o) // and again after the sub-views were queried
	return res
}

func neighbourOrders(r *ev.Run, thorough bool) {
	sets := neighbourSets(thorough)
	process := processNeighbour
	var pairs, vectors int64
	reported := map[string]bool{}
	for _, set := range sets {
		first := map[string]string{}
		vectors += int64(len(set))
		for _, u := range set {
			for _, v := range set {
				pairs++
				ru := process(u)
				rv := process(v)
				for _, x := range []struct {
					v nv
					r string
				}{{u, ru}, {v, rv}} {
					if pv, ok := histPristine["nb|"+x.v.s]; ok && pv != hashStr(x.r) && !reported[x.v.s] {
						reported[x.v.s] = true
						r.Violate(ev.Violation{Kind: "result-differs-from-pristine-process", Case: map[string]any{"processed_first": u.s, "then": v.s, "vector": x.v.s}, Observed: x.r, Expected: "what the same vector gives as the first thing a fresh process does (hash " + pv + ")"})
					}
					if exp, ok := first[x.v.s]; ok {
						if x.r != exp {
							r.Violate(ev.Violation{Kind: "result-depends-on-processing-order", Case: map[string]any{"processed_first": u.s, "then": v.s, "vector": x.v.s}, Observed: x.r, Expected: exp + "  (what the same vector gave the first time it was processed)"})
							first[x.v.s] = x.r // report each divergence once
						}
					} else {
						first[x.v.s] = x.r
					}
				}
			}
		}
	}
	r.Add("neighbour_vectors", vectors)
	r.Add("neighbour_ordered_pairs", pairs)
	r.Add("evaluations", pairs)
}
