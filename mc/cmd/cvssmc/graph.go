package main

import "cvssmc/internal/ev"

func graphC01(r *ev.Run, thorough bool) {}
