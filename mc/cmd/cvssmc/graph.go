package main

// GRAPH engine (DESIGN.md §5.2): explicit-state exploration of the decoders.  States are real
// decoder objects (reflective dump of the receiver after Decode(prefix)) plus the decoder's
// residue; every (state, token) transition is executed on the real Decode and judged by the
// reference recogniser.  Also the stateless string sets and the character-level edit balls.

import (
	"crypto/sha256"
	"fmt"
	"sort"
	"strings"
	"sync"
	"sync/atomic"
	"time"

	"cvssmc/internal/dump"
	"cvssmc/internal/ev"
	"cvssmc/internal/lang"
	"cvssmc/internal/lib"
	"cvssmc/internal/spec"
)

// gprops selects the oracles applied to every executed string.
type gprops struct {
	accept   bool  // C07/C08: err==nil iff the reference accepts
	classify bool  // C11: exactly one admissible sentinel, nil object
	total    bool  // C12: no panic, object xor error, nil receiver agrees, left-behind objects sane
	dec      props // oracles for accepted vectors (C01, C09, C10, C14 …); zero value = none
	decOn    bool
	order    bool // C09: observables depend only on the token set (and explicit X == omitted)
}

type gstats struct {
	strings, accepted, rejected int64
	classes                     sync.Map // error class -> count (*int64)
	modelObs                    sync.Map // model key -> observables (order independence)
	normObs                     sync.Map // X-normalised model key -> observables
	orderEvents                 int64
	leftSeen                    sync.Map
	leftBehind                  int64
	sample                      sync.Once
}

func (g *gstats) class(c string) {
	v, _ := g.classes.LoadOrStore(c, new(int64))
	atomic.AddInt64(v.(*int64), 1)
}

func decoderName(ver, level int) string {
	return fmt.Sprintf("v%d %s decoder", ver, spec.LevelNames[level])
}

func strCase(ver, level int, s string) map[string]any {
	if len(s) > 300 {
		return map[string]any{"cvss": ver, "decoder": spec.LevelNames[level], "vector_prefix": s[:300], "vector_len": len(s)}
	}
	return map[string]any{"cvss": ver, "decoder": spec.LevelNames[level], "vector": s}
}

func strTest(ver, level int, s string) string {
	pkg := "v3"
	if ver == 2 {
		pkg = "v2"
	}
	ctor := []string{"NewBase", "NewTemporal", "NewEnvironmental"}[level]
	if len(s) > 400 {
		return ""
	}
	return fmt.Sprintf("m, err := %s.%s().Decode(%q)\nt.Log(m, err)", pkg, ctor, s)
}

// judge executes s on a fresh constructor object of decoder (ver, level), applies the oracles
// of G and returns the receiver (for state dumps) and whether the library accepted.
func judge(r *ev.Run, G *gprops, gs *gstats, ver, level int, s string) (recv any, accepted bool) {
	recv = lib.New(ver, level)
	obj, err, pan := lib.Decode(recv, s)
	atomic.AddInt64(&gs.strings, 1)
	v := lang.Classify(ver, level, s)
	accepted = err == nil && pan == ""
	if accepted {
		atomic.AddInt64(&gs.accepted, 1)
	} else {
		atomic.AddInt64(&gs.rejected, 1)
	}
	if pan != "" {
		if G.total || G.accept {
			r.Violate(ev.Violation{Kind: "decode-panics", Case: strCase(ver, level, s), Observed: "panic: " + pan, Expected: "an error or an object", GoTest: strTest(ver, level, s)})
		}
		return recv, false
	}
	cls := lib.Classes(err)
	gs.class(strings.Join(cls, "+"))
	if G.total {
		if (obj == nil) == (err == nil) {
			r.Violate(ev.Violation{Kind: "object-xor-error", Case: strCase(ver, level, s), Observed: fmt.Sprintf("object nil=%v, error nil=%v", obj == nil, err == nil), Expected: "exactly one of object and error", GoTest: strTest(ver, level, s)})
		}
		if err != nil {
			// one check per distinct left-behind object state
			h := sha256.Sum256([]byte(dump.Of(recv)))
			if _, dup := gs.leftSeen.LoadOrStore(h, true); !dup {
				atomic.AddInt64(&gs.leftBehind, 1)
				checkLeftBehind(r, ver, level, s, recv)
				checkRedecode(r, ver, level, s, recv)
			}
		}
	}
	if G.accept {
		if (err == nil) != v.Accept {
			exp := "accepted"
			if !v.Accept {
				exp = "rejected: " + strings.Join(v.DefectList(), ", ")
			}
			r.Violate(ev.Violation{Kind: "acceptance", Case: strCase(ver, level, s), Observed: fmt.Sprintf("err=%v", err), Expected: exp, GoTest: strTest(ver, level, s)})
		}
		if err == nil && obj != nil {
			if o := lib.Observe(obj); o.GetErr != "nil" || o.Panic != "" {
				r.Violate(ev.Violation{Kind: "accepted-object-unusable", Case: strCase(ver, level, s), Observed: o.String(), Expected: "GetError()==nil"})
			}
		}
	}
	if G.classify && err != nil && !v.Accept {
		switch {
		case len(cls) != 1:
			r.Violate(ev.Violation{Kind: "sentinel-count", Case: strCase(ver, level, s), Observed: fmt.Sprintf("error %q matches %v", err.Error(), cls), Expected: "exactly one exported sentinel", GoTest: strTest(ver, level, s)})
		case !v.Defects[cls[0]]:
			r.Violate(ev.Violation{Kind: "wrong-defect", Case: strCase(ver, level, s), Observed: cls[0], Expected: "one of " + strings.Join(v.DefectList(), ", ") + " (defects present in the input)", GoTest: strTest(ver, level, s)})
		}
		if obj != nil {
			r.Violate(ev.Violation{Kind: "object-with-error", Case: strCase(ver, level, s), Observed: "non-nil object together with an error", Expected: "nil object"})
		}
	}
	if accepted && !v.Accept && obj != nil && G.decOn && G.dec.encode {
		// accepted by the library although the reference rejects it (that is C07/C08's finding);
		// the encoding obligations hold for every vector the library accepts
		checkEncodeLoose(r, ver, level, s, obj)
	}
	if accepted && !v.Accept && obj != nil && G.decOn && G.dec.fields {
		// C09 speaks of every ACCEPTED vector: a string the library accepts although the reference
		// rejects it still owes "each field holds the value written for it"
		checkFieldsLoose(r, ver, level, s, obj)
	}
	if accepted && v.Accept && obj != nil {
		c := &dcase{ver: ver, level: level, s: s, tok: v.Tokens, verLabel: v.Ver}
		if G.decOn {
			evalDecoded(r, G.dec, nil, c)
		}
		if G.order {
			checkOrder(r, gs, c, obj)
		}
	}
	return recv, accepted
}

// checkEncodeLoose: for a string the library accepts: Encode succeeds, String()==Encode(), v2: the
// encoding is byte-identical to the input, and decoding the encoding gives the same observables.
func checkEncodeLoose(r *ev.Run, ver, level int, s string, obj any) {
	ob := lib.Observe(obj)
	cs := strCase(ver, level, s)
	if ob.EncErr != "nil" || ob.Panic != "" {
		r.Violate(ev.Violation{Kind: "encoding", Case: cs, Observed: fmt.Sprintf("%q err=%s panic=%q", ob.Enc, ob.EncErr, ob.Panic), Expected: "an encoding of the accepted vector"})
		return
	}
	if ver == 2 && ob.Enc != s {
		r.Violate(ev.Violation{Kind: "v2-encoding-not-input", Case: cs, Observed: ob.Enc, Expected: s + "  (v2: the encoding of an accepted vector is byte-identical to the input)", GoTest: strTest(ver, level, s)})
	}
	if ob.Str != ob.Enc {
		r.Violate(ev.Violation{Kind: "string-differs-from-encode", Case: cs, Observed: ob.Str, Expected: ob.Enc})
	}
	again, err, pan := lib.DecodeNew(ver, level, ob.Enc)
	if err != nil || pan != "" || again == nil {
		r.Violate(ev.Violation{Kind: "encoding-not-decodable", Case: with(cs, "encoding", ob.Enc), Observed: fmt.Sprintf("err=%v panic=%q", err, pan), Expected: "accepted"})
		return
	}
	if a, b := observables(obj), observables(again); a != b {
		r.Violate(ev.Violation{Kind: "decode-encode-decode", Case: with(cs, "encoding", ob.Enc), Observed: b, Expected: a})
	}
}

// checkFieldsLoose: for a string the library accepts although it is not a well-formed vector: every
// token "name:value" whose name is a metric of the decoder's level (and occurs once) must have left
// exactly the value it spells in the field of that name; a value text that is no code of the
// metric cannot have been stored faithfully at all.
func checkFieldsLoose(r *ev.Run, ver, level int, s string, obj any) {
	count := map[string]int{}
	toks := strings.Split(s, "/")
	for _, tk := range toks {
		if p := strings.Split(tk, ":"); len(p) == 2 {
			count[p[0]]++
		}
	}
	// a metric that no token names holds no defined value
	for _, m := range spec.UpTo(ver, level) {
		if count[m.Name] != 0 {
			continue
		}
		got, ok := lib.Field(obj, m.Name)
		en := lib.EnumOf(ver, m.Name)
		if !ok || got == en.Unknown {
			continue
		}
		for i, c := range en.Codes {
			if en.Consts[i] == got && !c.ND {
				r.Violate(ev.Violation{Kind: "accepted-vector-field-not-as-written", Case: strCase(ver, level, s), Observed: fmt.Sprintf("%s holds %d (prints %q) although no token of the vector names %s", m.Name, got, en.Str(got), m.Name), Expected: "Not Defined / unknown for a metric that is not written", GoTest: strTest(ver, level, s)})
			}
		}
	}
	for _, tk := range toks {
		p := strings.Split(tk, ":")
		if len(p) != 2 || count[p[0]] != 1 {
			continue
		}
		var m *spec.Metric
		for i, mm := range spec.Metrics(ver) {
			if mm.Name == p[0] && mm.Level <= level {
				m = &spec.Metrics(ver)[i]
			}
		}
		if m == nil {
			continue
		}
		got, ok := lib.Field(obj, m.Name)
		if !ok {
			continue
		}
		en := lib.EnumOf(ver, m.Name)
		want, isCode := 0, false
		for i, c := range en.Codes {
			if c.Code == p[1] {
				want, isCode = en.Consts[i], true
			}
		}
		switch {
		case !isCode:
			r.Violate(ev.Violation{Kind: "accepted-vector-field-not-as-written", Case: strCase(ver, level, s), Observed: fmt.Sprintf("%s holds %d (prints %q) although the vector writes %q, which is no code of the metric", m.Name, got, en.Str(got), p[1]), Expected: "a field equal to the value written (the property speaks of every accepted vector)", GoTest: strTest(ver, level, s)})
		case got != want:
			r.Violate(ev.Violation{Kind: "accepted-vector-field-not-as-written", Case: strCase(ver, level, s), Observed: fmt.Sprintf("%s holds %d (prints %q)", m.Name, got, en.Str(got)), Expected: fmt.Sprintf("%d, the value written (%q)", want, p[1]), GoTest: strTest(ver, level, s)})
		}
	}
}

// checkOrder: all paths to one token set give identical observables; explicit X == omitted.
func checkOrder(r *ev.Run, gs *gstats, c *dcase, obj any) {
	obs := observables(obj)
	keyOf := func(tok map[string]string) string {
		ks := make([]string, 0, len(tok))
		for k, v := range tok {
			ks = append(ks, k+":"+v)
		}
		sort.Strings(ks)
		return fmt.Sprintf("%d/%d/%s/%s", c.ver, c.level, c.verLabel, strings.Join(ks, "/"))
	}
	type seen struct{ obs, s string }
	if prev, loaded := gs.modelObs.LoadOrStore(keyOf(c.tok), seen{obs, c.s}); loaded && prev.(seen).obs != obs {
		atomic.AddInt64(&gs.orderEvents, 1)
		r.Violate(ev.Violation{Kind: "order-dependence", Case: with(c.m(), "other_order", prev.(seen).s), Observed: obs, Expected: prev.(seen).obs + "  (same tokens in another order)"})
	}
	if c.ver == 3 {
		norm := map[string]string{}
		for k, v := range c.tok {
			if m := spec.Find(3, k); m.Level > 0 && v == m.NDCode() {
				continue
			}
			norm[k] = v
		}
		if prev, loaded := gs.normObs.LoadOrStore(keyOf(norm), seen{obs, c.s}); loaded && prev.(seen).obs != obs {
			r.Violate(ev.Violation{Kind: "explicit-X-differs-from-omitted", Case: with(c.m(), "other", prev.(seen).s), Observed: obs, Expected: prev.(seen).obs})
		}
	}
}

// checkLeftBehind: C12(b) — the receiver of a failed decode answers every observer without
// panicking; if a metric of the queried level (or the version) still holds its unknown/invalid
// value, validity and encoding report an error and the score is 0.
func checkLeftBehind(r *ev.Run, ver, level int, s string, recv any) {
	for lv := 0; lv <= level; lv++ {
		view := lib.Sub(recv, lv)
		if lib.IsNil(view) {
			continue
		}
		o := lib.Observe(view)
		if o.Panic != "" {
			r.Violate(ev.Violation{Kind: "observer-panics-after-failed-decode", Case: with(strCase(ver, level, s), "view", spec.LevelNames[lv]), Observed: o.Panic, Expected: "no panic"})
			continue
		}
		if incompleteObject(view, ver, lv) && (o.GetErr == "nil" || o.EncErr == "nil" || o.Score != 0) {
			r.Violate(ev.Violation{Kind: "fabricated-result", Case: with(strCase(ver, level, s), "view", spec.LevelNames[lv]), Observed: o.String(), Expected: "GetError and Encode report an error, Score()==0 (a metric still holds its unknown/invalid value)"})
		}
	}
}

// checkRedecode: a decoder that has failed once is still a decoder obtained from a constructor;
// decoding again through it (a valid vector, the failed input, an empty string) must return
// without panicking exactly one of object and error.  What it returns is not specified.
func checkRedecode(r *ev.Run, ver, level int, s string, recv any) {
	again := []string{seeds(ver)[0], s, ""}
	if level > 0 {
		again[0] = seeds(ver)[level]
	}
	// the complementary piece: the metrics of the valid vector that the failed input did not record
	m := lang.Scan(ver, level, splitPath(ver, s))
	if full := lang.Classify(ver, level, again[0]); full.Accept && len(m.Seen) > 0 {
		rest := map[string]string{}
		for k, v := range full.Tokens {
			if _, seen := m.Seen[k]; !seen {
				rest[k] = v
			}
		}
		again = append(again, canonicalWritten(ver, level, full.Ver, rest))
	}
	for _, a := range again {
		obj, err, pan := lib.Decode(recv, a)
		if pan != "" {
			r.Violate(ev.Violation{Kind: "second-decode-panics", Case: with(strCase(ver, level, s), "second_input", a), Observed: "panic: " + pan, Expected: "an error or an object",
				GoTest: fmt.Sprintf("d := New…(); d.Decode(%q); d.Decode(%q) // must not panic", s, a)})
			return
		}
		if (obj == nil) == (err == nil) {
			r.Violate(ev.Violation{Kind: "object-xor-error", Case: with(strCase(ver, level, s), "second_input", a), Observed: fmt.Sprintf("object nil=%v, error nil=%v", obj == nil, err == nil), Expected: "exactly one of object and error"})
			return
		}
		if obj != nil && lang.Classify(ver, level, a).Accept {
			// whatever a used decoder accepts must be what a fresh decoder returns for that input
			if fresh, ferr, _ := lib.DecodeNew(ver, level, a); ferr == nil && fresh != nil {
				if x, y := observables(obj), observables(fresh); x != y {
					r.Violate(ev.Violation{Kind: "reused-decoder-returns-other-object", Case: with(strCase(ver, level, s), "second_input", a), Observed: x, Expected: y + "  (what a fresh decoder returns for the second input)"})
				}
			}
		}
	}
}

// incompleteObject: the version or a metric of the queried level holds its unknown/invalid value
// (v2: a base metric, or a metric of a group that is present).
func incompleteObject(o any, ver, level int) bool {
	if ver == 3 && lib.V3Ver(o) == "unknown" {
		return true
	}
	for _, m := range spec.UpTo(ver, level) {
		en := lib.EnumOf(ver, m.Name)
		v, ok := lib.Field(o, m.Name)
		if !ok {
			return true
		}
		if v != en.Unknown {
			continue
		}
		if ver == 2 && m.Level > 0 && lib.IsEmpty(o, m.Level) {
			continue
		}
		return true
	}
	return false
}

// ---------------------------------------------------------------------------------------------
// token alphabet

type token struct {
	text  string
	valid bool // a specification name:code of the decoder's level
}

func lower(s string) string { return strings.ToLower(s) }

// alphabet builds the token alphabet of decoder (ver, level): every name:code of the level; per
// name the invalid values Q, lower-cased code, doubled code and X/ND for base metrics; foreign
// names; malformed tokens.  Simplest first.
func alphabet(ver, level int) []token {
	var a []token
	for _, m := range spec.UpTo(ver, level) {
		for _, c := range m.Codes {
			a = append(a, token{m.Name + ":" + c.Code, true})
		}
	}
	for _, m := range spec.UpTo(ver, level) {
		first := m.Codes[0].Code
		bad := []string{"Q", lower(first), first + first}
		if m.Level == 0 {
			if ver == 3 {
				bad = append(bad, "X")
			} else {
				bad = append(bad, "ND")
			}
		}
		for _, b := range bad {
			if !m.Has(b) {
				a = append(a, token{m.Name + ":" + b, false})
			}
		}
	}
	// foreign names: higher-level names with valid codes, the other version's names, case variants
	for _, m := range spec.Metrics(ver) {
		if m.Level > level {
			a = append(a, token{m.Name + ":" + m.Codes[0].Code, false})
		}
	}
	other := 2
	if ver == 2 {
		other = 3
	}
	for _, m := range spec.Metrics(other) {
		if d := spec.Find(ver, m.Name); d == nil {
			a = append(a, token{m.Name + ":" + m.Codes[0].Code, false})
		}
	}
	f := spec.Metrics(ver)[0]
	for _, t := range []string{lower(f.Name) + ":" + f.Codes[0].Code, "ZZ:N", " " + f.Name + ":" + f.Codes[0].Code, f.Name + " :" + f.Codes[0].Code, "CVSS:3.1"} {
		a = append(a, token{t, false})
	}
	for _, t := range []string{"", ":", f.Name, f.Name + ":", ":" + f.Codes[0].Code, f.Name + ":" + f.Codes[0].Code + ":" + f.Codes[0].Code, f.Name + "::" + f.Codes[0].Code} {
		a = append(a, token{t, false})
	}
	return a
}

// ---------------------------------------------------------------------------------------------
// explicit-state search

type graphCfg struct {
	name       string
	ver, level int
	starts     []string // initial prefixes (complete strings; v3: begin with the version token)
	alphabet   []token
	// expand decides from the model whether a live state's successors are explored.
	expand func(m *lang.Model) bool
}

type gresult struct {
	states, live, transitions, accepting, terminal, boundary int64
	depth                                                    int
	capped                                                   string // non-empty: the search was cut short (reported, exhaustive:false)
}

// caps of one graph search: a change that makes every prefix a distinct state (e.g. an object that
// stores its input text) must end in an honest "not exhaustive", not in an endless run
var (
	graphMaxStates = int64(1_500_000)
	graphMaxTime   = 4 * time.Minute
)

func setGraphCaps(thorough bool) {
	if thorough {
		graphMaxStates, graphMaxTime = 12_000_000, 30*time.Minute
	}
}

func splitPath(ver int, s string) []string {
	if s == "" && ver == 2 {
		return nil
	}
	t := strings.Split(s, "/")
	if ver == 3 {
		return t[1:]
	}
	return t
}

func appendTok(ver int, path, tok string) string {
	if ver == 2 && path == "" {
		// the empty v2 input has no tokens yet; the first token starts the string
		return tok
	}
	return path + "/" + tok
}

// explore runs the breadth-first search of one configuration.
func explore(r *ev.Run, G *gprops, gs *gstats, cfg graphCfg) gresult {
	var res gresult
	seen := sync.Map{}
	type node struct{ path string }
	key := func(recv any, m *lang.Model) [16]byte {
		h := sha256.Sum256([]byte(fmt.Sprintf("%s|%v|%v", dump.Of(recv), m.Deferred, m.InOrder || cfg.ver == 3)))
		var k [16]byte
		copy(k[:], h[:16])
		return k
	}
	var frontier []node
	for _, s := range cfg.starts {
		recv, _ := judge(r, G, gs, cfg.ver, cfg.level, s)
		m := lang.Scan(cfg.ver, cfg.level, splitPath(cfg.ver, s))
		if _, dup := seen.LoadOrStore(key(recv, &m), true); !dup {
			frontier = append(frontier, node{s})
			res.states++
			if G.total || G.accept || G.classify {
				nilReceiver(r, cfg.ver, cfg.level, s)
			}
		}
	}
	t0 := time.Now()
	for len(frontier) > 0 {
		if atomic.LoadInt64(&res.states) > graphMaxStates || time.Since(t0) > graphMaxTime {
			res.capped = fmt.Sprintf("stopped at BFS depth %d with %d unexpanded states: cap of %d states / %s reached", res.depth, len(frontier), graphMaxStates, graphMaxTime)
			break
		}
		res.depth++
		var mu sync.Mutex
		var next []node
		safeParallel(r, len(frontier), func(i int) {
			n := frontier[i]
			var local []node
			var lt, lacc, lterm, lbound, lstates int64
			for _, t := range cfg.alphabet {
				s := appendTok(cfg.ver, n.path, t.text)
				recv, acc := judge(r, G, gs, cfg.ver, cfg.level, s)
				lt++
				if acc {
					lacc++
				}
				m := lang.Scan(cfg.ver, cfg.level, splitPath(cfg.ver, s))
				if m.Aborted {
					lterm++
					continue // the decoder stopped at this token: terminal
				}
				if _, dup := seen.LoadOrStore(key(recv, &m), true); dup {
					continue
				}
				lstates++
				if G.total || G.accept || G.classify {
					nilReceiver(r, cfg.ver, cfg.level, s)
				}
				if !cfg.expand(&m) {
					lbound++
					continue
				}
				local = append(local, node{s})
			}
			atomic.AddInt64(&res.transitions, lt)
			atomic.AddInt64(&res.accepting, lacc)
			atomic.AddInt64(&res.terminal, lterm)
			atomic.AddInt64(&res.boundary, lbound)
			atomic.AddInt64(&res.states, lstates)
			mu.Lock()
			next = append(next, local...)
			mu.Unlock()
		})
		res.live += int64(len(frontier))
		if res.depth == 3 && len(frontier) > 5 {
			gs.sample.Do(func() {
				r.Sample(map[string]any{"graph": cfg.name, "state_reached_by": frontier[len(frontier)/2].path, "then_every_token_of_alphabet": len(cfg.alphabet)})
			})
		}
		// deterministic order for reproducible shortest counterexamples
		sort.Slice(next, func(i, j int) bool { return next[i].path < next[j].path })
		frontier = next
	}
	return res
}

// nilReceiver: decoding through a nil receiver gives the same verdict as through a constructor
// result (C12).
func nilReceiver(r *ev.Run, ver, level int, s string) {
	o1, e1, p1 := lib.Decode(lib.Nil(ver, level), s)
	o2, e2, p2 := lib.DecodeNew(ver, level, s)
	a := fmt.Sprintf("obj=%v err=%s panic=%q", o1 != nil, lib.Class(e1), p1)
	b := fmt.Sprintf("obj=%v err=%s panic=%q", o2 != nil, lib.Class(e2), p2)
	if a != b || p1 != "" {
		r.Violate(ev.Violation{Kind: "nil-receiver-decode", Case: strCase(ver, level, s), Observed: a, Expected: b + " (as through a constructor result), no panic"})
		return
	}
	if o1 != nil && o2 != nil && lib.Observe(o1) != lib.Observe(o2) {
		r.Violate(ev.Violation{Kind: "nil-receiver-decode", Case: strCase(ver, level, s), Observed: lib.Observe(o1).String(), Expected: lib.Observe(o2).String()})
	}
}

func addResult(r *ev.Run, name string, g gresult) {
	r.Add("states", g.states)
	r.Add("transitions", g.transitions)
	r.Add("traces_validated_against_impl", g.transitions)
	r.Add("live_states_expanded", g.live)
	r.Add("accepting_transitions", g.accepting)
	r.Add("terminal_transitions", g.terminal)
	r.Add("boundary_states_not_expanded", g.boundary)
	if g.capped != "" {
		r.Set("exhaustive", false)
		r.Set("cap_hit_"+name, g.capped)
	}
	r.Set("graph_"+name, fmt.Sprintf("states=%d expanded=%d transitions=%d accepting=%d terminal=%d boundary=%d bfs_depth=%d", g.states, g.live, g.transitions, g.accepting, g.terminal, g.boundary, g.depth))
}

// ---------------------------------------------------------------------------------------------
// configurations

func baseVec(ver int, pick func(m *spec.Metric) string) map[string]string {
	t := map[string]string{}
	for _, m := range spec.At(ver, 0) {
		m := m
		t[m.Name] = pick(&m)
	}
	return t
}

func firstCode(m *spec.Metric) string { return m.Codes[0].Code }
func lastCode(m *spec.Metric) string  { return m.Codes[len(m.Codes)-1].Code }
func secondDefined(m *spec.Metric) string {
	for _, c := range m.Codes[1:] {
		if !c.ND {
			return c.Code
		}
	}
	return m.Codes[0].Code
}
func firstDefined(m *spec.Metric) string {
	for _, c := range m.Codes {
		if !c.ND {
			return c.Code
		}
	}
	return m.Codes[0].Code
}

func prefixV3(verLabel string, tok map[string]string, level int) string {
	return canonicalWritten(3, level, verLabel, tok)
}

// subsetOf reports whether every seen token of the given level set equals ref's.
func agrees(m *lang.Model, ver, level int, ref map[string]string) bool {
	for _, d := range spec.At(ver, level) {
		if c, ok := m.Seen[d.Name]; ok && c != ref[d.Name] {
			return false
		}
	}
	return true
}

func countLevel(m *lang.Model, ver, level int) int {
	n := 0
	for _, d := range spec.At(ver, level) {
		if _, ok := m.Seen[d.Name]; ok {
			n++
		}
	}
	return n
}

// inRb: base part is empty, complete, or complete minus one metric, and agrees with c1 (or is
// exactly c2).
func inRb(m *lang.Model, ver int, c1, c2 map[string]string) bool {
	nb := len(spec.At(ver, 0))
	n := countLevel(m, ver, 0)
	if n == 0 {
		return true
	}
	if n == nb && agrees(m, ver, 0, c2) {
		return true
	}
	return n >= nb-1 && agrees(m, ver, 0, c1)
}

// v3 base decoder: complete (all values, both versions).
func cfgV3Base() graphCfg {
	return graphCfg{name: "v3-base-complete", ver: 3, level: 0, starts: []string{"CVSS:3.0", "CVSS:3.1"}, alphabet: alphabet(3, 0),
		expand: func(m *lang.Model) bool { return true }}
}

// v3 temporal decoder: temporal part complete x base part in R_b.
func cfgV3Temporal(full bool) graphCfg {
	c1, c2 := baseVec(3, firstCode), baseVec(3, lastCode)
	starts := []string{"CVSS:3.0", "CVSS:3.1", prefixV3("3.1", c1, 0), prefixV3("3.0", c2, 0)}
	if full {
		starts = append(starts, prefixV3("3.0", c1, 0), prefixV3("3.1", c2, 0))
	}
	for _, d := range spec.At(3, 0) {
		t := copyTok(c1)
		delete(t, d.Name)
		starts = append(starts, prefixV3("3.1", t, 0))
	}
	return graphCfg{name: "v3-temporal", ver: 3, level: 1, starts: starts, alphabet: alphabet(3, 1),
		expand: func(m *lang.Model) bool { return inRb(m, 3, c1, c2) }}
}

// v3 environmental decoder: environmental part in {unseen, chosen value}^11 x temporal part in
// R_t x base part in R_b.
func cfgV3Env(full bool, withX bool) graphCfg {
	c1, c2 := baseVec(3, firstCode), baseVec(3, lastCode)
	tDef := map[string]string{}
	for _, d := range spec.At(3, 1) {
		d := d
		tDef[d.Name] = firstDefined(&d)
	}
	chosen := map[string]string{}
	for _, d := range spec.At(3, 2) {
		d := d
		chosen[d.Name] = firstDefined(&d)
	}
	name := "v3-environmental"
	starts := []string{"CVSS:3.1", prefixV3("3.1", c1, 0), prefixV3("3.1", merge(c1, tDef), 1)}
	t := copyTok(c1)
	delete(t, "A")
	starts = append(starts, prefixV3("3.1", t, 0))
	if full {
		starts = append(starts, "CVSS:3.0", prefixV3("3.0", c2, 0), prefixV3("3.0", merge(c2, map[string]string{"E": "X", "RL": "X", "RC": "X"}), 1))
		for _, d := range spec.At(3, 0) {
			t := copyTok(c1)
			delete(t, d.Name)
			starts = append(starts, prefixV3("3.0", t, 0))
		}
		for _, d := range spec.At(3, 1) {
			starts = append(starts, prefixV3("3.1", merge(c1, map[string]string{d.Name: tDef[d.Name]}), 1))
		}
	}
	if withX {
		name = "v3-environmental-explicit-X"
		starts = []string{prefixV3("3.1", c1, 0)}
	}
	return graphCfg{name: name, ver: 3, level: 2, starts: starts, alphabet: alphabet(3, 2),
		expand: func(m *lang.Model) bool {
			if !inRb(m, 3, c1, c2) {
				return false
			}
			// temporal part: empty, all X, all defined, or a single defined one
			nt := countLevel(m, 3, 1)
			allX := true
			for _, d := range spec.At(3, 1) {
				if c, ok := m.Seen[d.Name]; ok && c != "X" {
					allX = false
				}
			}
			okT := nt == 0 || (nt == 3 && allX) || (agrees(m, 3, 1, tDef) && (nt == 3 || nt == 1))
			if !okT {
				return false
			}
			for _, d := range spec.At(3, 2) {
				if c, ok := m.Seen[d.Name]; ok && c != chosen[d.Name] && !(withX && c == "X") {
					return false
				}
			}
			if withX && nt != 0 {
				return false
			}
			if !full && countLevel(m, 3, 2) > 0 {
				// quick: the environmental part is closed over a complete base vector c1 with the
				// temporal part empty or completely defined
				return countLevel(m, 3, 0) == 8 && agrees(m, 3, 0, c1) && (nt == 0 || (nt == 3 && !allX))
			}
			return true
		}}
}

// v2 decoders: one value per metric (thorough: two for temporal/environmental), all seen-sets.
func cfgV2(level int, two bool, full bool) graphCfg {
	c1 := map[string]string{}
	c2 := map[string]string{}
	for _, d := range spec.UpTo(2, level) {
		d := d
		c1[d.Name] = firstCode(&d)
		c2[d.Name] = secondDefined(&d)
	}
	starts := []string{""}
	if !full && level == 2 {
		b := lang.Project(2, 0, c1)
		starts = append(starts, canonicalWritten(2, 0, "", b))
		for _, d := range spec.At(2, 0) {
			t := copyTok(b)
			delete(t, d.Name)
			starts = append(starts, canonicalWritten(2, 0, "", t))
		}
	}
	return graphCfg{name: fmt.Sprintf("v2-%s", spec.LevelNames[level]), ver: 2, level: level, starts: starts, alphabet: alphabet(2, level),
		expand: func(m *lang.Model) bool {
			for k, c := range m.Seen {
				if c == c1[k] {
					continue
				}
				if two && spec.Find(2, k).Level > 0 && c == c2[k] {
					continue
				}
				return false
			}
			if !full && level == 2 {
				// quick: base part empty, complete or complete minus one metric
				if n := countLevel(m, 2, 0); n != 0 && n < 5 {
					return false
				}
			}
			return true
		}}
}

func graphConfigs(thorough bool, levels3, levels2 []int) []graphCfg {
	var cs []graphCfg
	for _, lv := range levels3 {
		switch lv {
		case 0:
			cs = append(cs, cfgV3Base())
		case 1:
			cs = append(cs, cfgV3Temporal(thorough))
		case 2:
			cs = append(cs, cfgV3Env(thorough, false))
			if thorough {
				cs = append(cs, cfgV3Env(true, true))
			}
		}
	}
	for _, lv := range levels2 {
		cs = append(cs, cfgV2(lv, thorough && lv > 0, thorough))
	}
	return cs
}

// runGraphs explores the configurations and records the results.
func runGraphs(r *ev.Run, G *gprops, gs *gstats, cfgs []graphCfg) {
	setGraphCaps(r.Tier == "thorough")
	for _, c := range cfgs {
		c := c
		r.Phase("graph "+c.name, func() { addResult(r, c.name, explore(r, G, gs, c)) })
	}
}

// graphC01: the complete v3 base decoder graph with the base-score oracle at every accepting
// transition (every token order of every valid base vector is a path of this graph).
func graphC01(r *ev.Run, thorough bool) {
	G := &gprops{decOn: true, dec: props{scoreLevel: 0}}
	gs := &gstats{}
	runGraphs(r, G, gs, []graphCfg{cfgV3Base()})
	permutationsV3(r, G, gs, []int{0, 1, 2}, thorough)
	r.Add("evaluations", atomic.LoadInt64(&gs.strings))
	r.Set("strings_executed", atomic.LoadInt64(&gs.strings))
	r.Set("strings_accepted", atomic.LoadInt64(&gs.accepted))
	r.Set("rule", "explicit-state search of the real v3 base decoder over ALL values: states are reflective dumps of the decoder object after Decode(prefix) plus the deferred-error flag, every (state, token) transition of the token alphabet is executed on the real Decode; at every accepting transition Score() is compared with the exact rational oracle and Score()==0 iff C=I=A=N; plus all 2x2,592 canonical vectors through the three decoders and all 40,320 token orders of base vectors through the temporal and environmental decoders")
}

// ---------------------------------------------------------------------------------------------
// stateless sets: every string executed independently, no merging

func permute(xs []string, fn func([]string)) {
	var rec func(k int)
	rec = func(k int) {
		if k == len(xs) {
			fn(xs)
			return
		}
		for i := k; i < len(xs); i++ {
			xs[k], xs[i] = xs[i], xs[k]
			rec(k + 1)
			xs[k], xs[i] = xs[i], xs[k]
		}
	}
	rec(0)
}

func tokensOf(ver, level int, tok map[string]string) []string {
	var ts []string
	for _, m := range spec.UpTo(ver, level) {
		if c, ok := tok[m.Name]; ok {
			ts = append(ts, m.Name+":"+c)
		}
	}
	return ts
}

// permutationsV3: all 40,320 orders of the 8 base tokens x assignments x versions at the given
// decoders; all orders of the temporal tokens at all positions; ordered selections of
// environmental tokens.
func permutationsV3(r *ev.Run, G *gprops, gs *gstats, decoders []int, thorough bool) {
	// four assignments; in the last two, neighbouring metrics carry different letters that are
	// valid codes of each other (a decoder that files a value under the wrong metric changes the score)
	assigns := []map[string]string{baseVec(3, firstCode), baseVec(3, lastCode),
		{"AV": "L", "AC": "H", "PR": "N", "UI": "R", "S": "C", "C": "H", "I": "L", "A": "N"},
		{"AV": "N", "AC": "L", "PR": "H", "UI": "N", "S": "U", "C": "N", "I": "H", "A": "L"}}
	var jobs [][]string
	for ai, a := range assigns {
		for vi, verLabel := range spec.V3Versions {
			if !thorough && ai%2 != vi {
				continue
			}
			toks := tokensOf(3, 0, a)
			// shard by the first token
			for i := range toks {
				rest := append(append([]string{}, toks[:i]...), toks[i+1:]...)
				jobs = append(jobs, append([]string{"CVSS:" + verLabel, toks[i]}, rest...))
			}
		}
	}
	safeParallel(r, len(jobs), func(i int) {
		j := jobs[i]
		rest := append([]string{}, j[2:]...)
		permute(rest, func(p []string) {
			s := j[0] + "/" + j[1] + "/" + strings.Join(p, "/")
			for _, d := range decoders {
				judge(r, G, gs, 3, d, s)
			}
		})
	})
	if !inInts(decoders, 1) && !inInts(decoders, 2) {
		return
	}
	// temporal tokens in all orders at all positions of a base vector; environmental selections
	c1 := baseVec(3, firstCode)
	bt := tokensOf(3, 0, c1)
	tt := []string{"E:F", "RL:W", "RC:R"}
	et := []string{"CR:H", "IR:L", "AR:M", "MAV:P", "MAC:H", "MPR:N", "MUI:R", "MS:C", "MC:N", "MI:L", "MA:H", "MS:X", "MPR:X", "MAV:X", "MC:X", "CR:X", "MS:U", "MPR:L", "MPR:H"}
	var strs []string
	permute(append([]string{}, tt...), func(p []string) {
		for a := 0; a <= len(bt); a++ {
			for b := a; b <= len(bt); b++ {
				for c := b; c <= len(bt); c++ {
					seq := []string{}
					for i := 0; i <= len(bt); i++ {
						if i == a {
							seq = append(seq, p[0])
						}
						if i == b {
							seq = append(seq, p[1])
						}
						if i == c {
							seq = append(seq, p[2])
						}
						if i < len(bt) {
							seq = append(seq, bt[i])
						}
					}
					strs = append(strs, "CVSS:3.1/"+strings.Join(seq, "/"))
				}
			}
		}
	})
	sel := 3
	if thorough {
		sel = 4
	}
	var recSel func(cur []string, used uint)
	recSel = func(cur []string, used uint) {
		if len(cur) > 0 {
			// selections placed before, inside and after the base vector
			strs = append(strs, "CVSS:3.0/"+strings.Join(append(append([]string{}, bt...), cur...), "/"))
			strs = append(strs, "CVSS:3.0/"+strings.Join(append(append([]string{}, cur...), bt...), "/"))
			strs = append(strs, "CVSS:3.0/"+strings.Join(append(append(append([]string{}, bt[:4]...), cur...), bt[4:]...), "/"))
			// the same placements around base vectors with changed scope and privileges (what an
			// optional metric falls back to is then not yet known when it is read), other version
			if len(cur) <= 2 || thorough {
				for ai, a := range assigns[2:] {
					ob := tokensOf(3, 0, a)
					label := "CVSS:" + spec.V3Versions[ai%2] + "/"
					strs = append(strs, label+strings.Join(append(append([]string{}, cur...), ob...), "/"))
					strs = append(strs, label+strings.Join(append(append(append([]string{}, ob[:4]...), cur...), ob[4:]...), "/"))
					if len(cur) == 2 {
						strs = append(strs, label+strings.Join(append(append(append([]string{}, cur[:1]...), ob...), cur[1:]...), "/"))
					}
				}
			}
		}
		if len(cur) == sel {
			return
		}
		for i, e := range et {
			if used&(1<<uint(i)) != 0 {
				continue
			}
			dupName := false
			for _, c := range cur {
				if strings.SplitN(c, ":", 2)[0] == strings.SplitN(e, ":", 2)[0] {
					dupName = true
				}
			}
			if !dupName {
				recSel(append(append([]string{}, cur...), e), used|1<<uint(i))
			}
		}
	}
	recSel(nil, 0)
	// complete 22-metric vectors (four backgrounds, both version labels) in unusual arrangements:
	// reversed, every rotation, every single token moved to every position, every transposition
	// of two tokens, the three groups dealt round-robin, optional metrics first
	if inInts(decoders, 2) {
		for bi, bg := range reportBackgrounds() {
			toks := tokensOf(3, 2, bg.tok)
			label := "CVSS:" + spec.V3Versions[bi%2] + "/"
			addArr := func(p []string) { strs = append(strs, label+strings.Join(p, "/")) }
			n := len(toks)
			rev := make([]string, n)
			for i := range toks {
				rev[n-1-i] = toks[i]
			}
			addArr(rev)
			for k := 1; k < n; k++ {
				addArr(append(append([]string{}, toks[k:]...), toks[:k]...))
				addArr(append(append([]string{}, rev[k:]...), rev[:k]...))
			}
			for i := 0; i < n; i++ {
				rest := append(append([]string{}, toks[:i]...), toks[i+1:]...)
				for j := 0; j < n; j++ {
					if j == i {
						continue
					}
					addArr(append(append(append([]string{}, rest[:j]...), toks[i]), rest[j:]...))
				}
				for j := i + 1; j < n; j++ {
					sw := append([]string{}, toks...)
					sw[i], sw[j] = sw[j], sw[i]
					addArr(sw)
				}
			}
			var deal []string
			b, t, e := toks[:8], toks[8:11], toks[11:]
			for i := 0; i < 11; i++ {
				if i < len(e) {
					deal = append(deal, e[i])
				}
				if i < len(t) {
					deal = append(deal, t[i])
				}
				if i < len(b) {
					deal = append(deal, b[i])
				}
			}
			addArr(deal)
			addArr(append(append(append([]string{}, e...), t...), b...))
			addArr(append(append(append([]string{}, t...), b...), e...))
		}
	}
	safeParallel(r, 64, func(sh int) {
		for i := sh; i < len(strs); i += 64 {
			for _, d := range decoders {
				if d >= 1 {
					judge(r, G, gs, 3, d, strs[i])
				}
			}
		}
	})
}

func inInts(xs []int, x int) bool {
	for _, y := range xs {
		if y == x {
			return true
		}
	}
	return false
}

// permutationsV2: all orders within each group, all group orders.
func permutationsV2(r *ev.Run, G *gprops, gs *gstats) {
	full := map[string]string{}
	for _, d := range spec.V2 {
		d := d
		full[d.Name] = firstCode(&d)
	}
	g0, g1, g2 := tokensOf(2, 0, lang.Project(2, 0, full)), []string{"E:U", "RL:OF", "RC:UC"}, []string{"CDP:N", "TD:N", "CR:L", "IR:L", "AR:L"}
	var strs []string
	permute(append([]string{}, g0...), func(p []string) {
		strs = append(strs, strings.Join(p, "/"), strings.Join(append(append([]string{}, p...), g1...), "/"), strings.Join(append(append(append([]string{}, p...), g1...), g2...), "/"))
	})
	permute(append([]string{}, g1...), func(p []string) {
		strs = append(strs, strings.Join(append(append([]string{}, g0...), p...), "/"), strings.Join(append(append(append([]string{}, g0...), p...), g2...), "/"))
	})
	permute(append([]string{}, g2...), func(p []string) {
		strs = append(strs, strings.Join(append(append([]string{}, g0...), p...), "/"), strings.Join(append(append(append([]string{}, g0...), g1...), p...), "/"))
	})
	groups := [][]string{g0, g1, g2}
	permute([]string{"0", "1", "2"}, func(p []string) {
		var seq []string
		for _, g := range p {
			seq = append(seq, groups[g[0]-'0']...)
		}
		strs = append(strs, strings.Join(seq, "/"))
	})
	safeParallel(r, 16, func(sh int) {
		for i := sh; i < len(strs); i += 16 {
			for d := 0; d < 3; d++ {
				judge(r, G, gs, 2, d, strs[i])
			}
		}
	})
}

// shortSequences: all token sequences of length <= n over the full alphabet appended to
// {empty, c1}.
func shortSequences(r *ev.Run, G *gprops, gs *gstats, ver, level, n int) {
	a := alphabet(ver, level)
	var prefixes []string
	if ver == 3 {
		prefixes = []string{"CVSS:3.1", prefixV3("3.0", baseVec(3, firstCode), 0)}
	} else {
		prefixes = []string{"", canonicalWritten(2, 0, "", baseVec(2, firstCode))}
	}
	for _, p := range prefixes {
		p := p
		safeParallel(r, len(a), func(i int) {
			var rec func(s string, depth int)
			rec = func(s string, depth int) {
				judge(r, G, gs, ver, level, s)
				if depth == n {
					return
				}
				for _, t := range a {
					rec(appendTok(ver, s, t.text), depth+1)
				}
			}
			rec(appendTok(ver, p, a[i].text), 1)
		})
	}
}

// ---------------------------------------------------------------------------------------------
// EDIT ball: character-level neighbourhood of seed vectors, and all short byte strings

var editSigma = []byte("CVS:/.301AHLNPRUXMOTWFEID avn\x00\xff\r\n\t")

func seeds(ver int) []string {
	if ver == 3 {
		return []string{
			"CVSS:3.1/AV:N/AC:L/PR:N/UI:R/S:C/C:H/I:L/A:N",
			"CVSS:3.0/AV:P/AC:H/PR:H/UI:N/S:U/C:N/I:N/A:H/E:F/RL:W/RC:R",
			"CVSS:3.1/AV:A/AC:H/PR:L/UI:N/S:C/C:L/I:H/A:L/E:P/RL:O/RC:U/CR:L/IR:M/AR:L/MAV:P/MAC:L/MPR:L/MUI:R/MS:C/MC:H/MI:H/MA:H",
		}
	}
	return []string{
		"AV:N/AC:L/Au:N/C:N/I:P/A:C",
		"AV:L/AC:M/Au:S/C:N/I:N/A:P/E:POC/RL:TF/RC:C",
		"AV:N/AC:L/Au:N/C:N/I:N/A:C/E:F/RL:OF/RC:C/CDP:H/TD:H/CR:M/IR:M/AR:H",
		"AV:A/AC:L/Au:N/C:C/I:C/A:C/CDP:H/TD:H/CR:L/IR:ND/AR:ND",
	}
}

// edits1 returns all strings at character edit distance <= 1 over sigma plus token-level edits.
func edits1(s string, sigma []byte, tokenLevel bool) []string {
	out := map[string]bool{s: true}
	for i := 0; i <= len(s); i++ {
		for _, c := range sigma {
			out[s[:i]+string(c)+s[i:]] = true
		}
		if i < len(s) {
			out[s[:i]+s[i+1:]] = true
			for _, c := range sigma {
				out[s[:i]+string(c)+s[i+1:]] = true
			}
			if i+1 < len(s) {
				out[s[:i]+string(s[i+1])+string(s[i])+s[i+2:]] = true
			}
		}
	}
	if tokenLevel {
		toks := strings.Split(s, "/")
		for i := range toks {
			drop := append(append([]string{}, toks[:i]...), toks[i+1:]...)
			out[strings.Join(drop, "/")] = true
			for j := range toks {
				dup := append(append(append([]string{}, toks[:j]...), toks[i]), toks[j:]...)
				out[strings.Join(dup, "/")] = true
				sw := append([]string{}, toks...)
				sw[i], sw[j] = sw[j], sw[i]
				out[strings.Join(sw, "/")] = true
				mv := append(append([]string{}, toks[:i]...), toks[i+1:]...)
				if j <= len(mv) {
					mv2 := append(append(append([]string{}, mv[:j]...), toks[i]), mv[j:]...)
					out[strings.Join(mv2, "/")] = true
				}
			}
		}
	}
	r := make([]string, 0, len(out))
	for k := range out {
		r = append(r, k)
	}
	sort.Strings(r)
	return r
}

func editBall(r *ev.Run, G *gprops, gs *gstats, vers []int, thorough bool) {
	for _, ver := range vers {
		for si, seed := range seeds(ver) {
			e1 := edits1(seed, editSigma, true)
			safeParallel(r, 64, func(sh int) {
				for i := sh; i < len(e1); i += 64 {
					for d := 0; d < 3; d++ {
						judge(r, G, gs, ver, d, e1[i])
					}
				}
			})
			r.Add("edit_distance_1_strings", int64(len(e1)))
			// distance 2: full alphabet for the base-level seed (thorough), reduced otherwise
			sigma2 := []byte(":/ X")
			if si == 0 && thorough {
				sigma2 = editSigma
			}
			if si > 0 && !thorough {
				continue
			}
			var n2 int64
			safeParallel(r, len(e1), func(i int) {
				for _, s2 := range edits1(e1[i], sigma2, false) {
					for d := 0; d < 3; d++ {
						judge(r, G, gs, ver, d, s2)
					}
					atomic.AddInt64(&n2, 1)
				}
			})
			r.Add("edit_distance_2_strings", n2)
		}
	}
}

// shortStrings: every byte string of length <= n over a 12-byte alphabet at all six decoders.
func shortStrings(r *ev.Run, G *gprops, gs *gstats, vers []int, n int) {
	sigma := []byte("CVS:/3.1AN a")
	var cnt int64
	safeParallel(r, len(sigma)*len(sigma), func(k int) {
		buf := make([]byte, 0, n)
		var rec func(depth int)
		rec = func(depth int) {
			s := string(buf)
			for _, ver := range vers {
				for d := 0; d < 3; d++ {
					judge(r, G, gs, ver, d, s)
				}
			}
			atomic.AddInt64(&cnt, 1)
			if depth == n {
				return
			}
			for _, c := range sigma {
				buf = append(buf, c)
				rec(depth + 1)
				buf = buf[:len(buf)-1]
			}
		}
		if n >= 2 {
			buf = append(buf, sigma[k/len(sigma)], sigma[k%len(sigma)])
			rec(2)
		}
	})
	// lengths 0 and 1
	for _, s := range append([]string{""}, strings.Split(string(sigma), "")...) {
		for _, ver := range vers {
			for d := 0; d < 3; d++ {
				judge(r, G, gs, ver, d, s)
			}
		}
		cnt++
	}
	r.Add("short_byte_strings", cnt)
}

// longInputs: a fixed list of structured 1 MiB inputs (length independence itself rests on the
// closure of the graph).
func longInputs(r *ev.Run, G *gprops, gs *gstats, vers []int) {
	big := 1 << 20
	for _, ver := range vers {
		valid := seeds(ver)[0]
		ins := []string{
			strings.Repeat("/", big), strings.Repeat(":", big), strings.Repeat("A", big),
			valid + strings.Repeat("/ZZ:N", 100000), valid + "/" + strings.Repeat("AV:N/", 100000),
			strings.Repeat("CVSS:3.1/", big/9), valid + "/E:" + strings.Repeat("X", big),
		}
		for _, s := range ins {
			for d := 0; d < 3; d++ {
				judge(r, G, gs, ver, d, s)
			}
		}
		r.Add("long_inputs", int64(len(ins)*3))
	}
}

// lengthBoundaries: inputs whose length sits on / next to a power of two, ending in every short
// tail over a byte alphabet with ASCII, separators, NUL and UTF-8 lead and continuation bytes
// (a truncation or chunking helper that mis-handles one length or one byte class).
func lengthBoundaries(r *ev.Run, G *gprops, gs *gstats, vers []int, thorough bool) {
	tailBytes := []byte{'A', '/', ':', 0x00, 0x80, 0xBF, 0xC3, 0xE2, 0xF0, 0xFF}
	var tails []string
	tails = append(tails, "")
	for _, a := range tailBytes {
		tails = append(tails, string([]byte{a}))
		for _, b := range tailBytes {
			tails = append(tails, string([]byte{a, b}))
			if thorough {
				for _, c := range tailBytes {
					tails = append(tails, string([]byte{a, b, c}))
				}
			}
		}
	}
	var lens []int
	for p := 8; p <= 4096; p *= 2 {
		lens = append(lens, p-2, p-1, p, p+1)
	}
	if thorough {
		lens = append(lens, 65535, 65536, 65537)
	}
	var n int64
	for _, ver := range vers {
		ver := ver
		valid := seeds(ver)[0]
		safeParallel(r, len(lens), func(li int) {
			L := lens[li]
			pad := func(prefix string, fill byte) string {
				if len(prefix) >= L {
					return prefix[:L]
				}
				return prefix + strings.Repeat(string([]byte{fill}), L-len(prefix))
			}
			prefixes := []string{pad("", 'A'), pad("", 0x80), pad(valid+"/ZZ:", 'A'), pad(valid+"/AV:", 'y'), pad(valid+"/", 'é'-0x100+0x100)}
			for _, p := range prefixes {
				for _, t := range tails {
					for d := 0; d < 3; d++ {
						judge(r, G, gs, ver, d, p+t)
					}
					atomic.AddInt64(&n, 1)
				}
			}
		})
	}
	r.Add("length_boundary_inputs", n)
}

func finishGraphStats(r *ev.Run, gs *gstats) {
	r.Set("strings_executed", atomic.LoadInt64(&gs.strings))
	r.Set("strings_accepted", atomic.LoadInt64(&gs.accepted))
	r.Set("strings_rejected", atomic.LoadInt64(&gs.rejected))
	cl := map[string]int64{}
	gs.classes.Range(func(k, v any) bool { cl[k.(string)] = atomic.LoadInt64(v.(*int64)); return true })
	r.Set("error_classes_observed", cl)
	r.Set("distinct_error_classes", int64(len(cl)))
	r.Set("evaluations", atomic.LoadInt64(&gs.strings))
	if n := atomic.LoadInt64(&gs.leftBehind); n > 0 {
		r.Set("distinct_objects_left_behind_by_failed_decodes", n)
	}
}

// ---------------------------------------------------------------------------------------------
// pumping: a valid (or empty) prefix followed by k repetitions of one pumpable token, for many k.
// The decoder's residue is a boolean in the reference; an implementation that counts, caps or
// chunks its input differs only at particular lengths (a wrapped counter, a split limit).

func pumpCounts(thorough bool) []int {
	var ks []int
	for k := 1; k <= 300; k++ {
		ks = append(ks, k)
	}
	ks = append(ks, 511, 512, 513, 767, 768, 1023, 1024, 1025, 4095, 4096, 4097, 65535, 65536, 65537)
	if thorough {
		ks = append(ks, 131071, 131072, 131073, 1<<20, 1<<20+1)
	}
	return ks
}

func pumping(r *ev.Run, G *gprops, gs *gstats, vers []int, thorough bool) {
	var n int64
	for _, ver := range vers {
		for level := 0; level < 3; level++ {
			var prefixes []string
			for _, s := range seeds(ver) {
				if lang.Classify(ver, level, s).Accept {
					prefixes = append(prefixes, s)
				}
			}
			if ver == 3 {
				prefixes = append(prefixes, "CVSS:3.1")
			}
			// pumpable tokens: a foreign name, a higher-level / other-version name, an empty token,
			// a malformed token, and (after a valid vector) a duplicate of its last token
			toks := []string{"ZZ:N", "", "AV", "Au:N", "MAV:N", "E:F"}
			ks := pumpCounts(thorough)
			for _, p := range prefixes {
				p := p
				last := p[strings.LastIndex(p, "/")+1:]
				all := append(append([]string{}, toks...), last)
				safeParallel(r, len(all), func(ti int) {
					var b strings.Builder
					b.WriteString(p)
					done := 0
					for _, k := range ks {
						for ; done < k; done++ {
							b.WriteString("/" + all[ti])
						}
						judge(r, G, gs, ver, level, b.String())
						atomic.AddInt64(&n, 1)
					}
				})
				// k DISTINCT foreign names / distinct bad values / distinct malformed tokens after the
				// prefix, for every k <= 300 (round 6, C12-B-r6: a fixed array of 24 slots for the
				// distinct unsupported names of one vector)
				kinds := []func(i int) string{
					func(i int) string { return fmt.Sprintf("Z%03d:N", i) },
					func(i int) string { return fmt.Sprintf("Z%03d:Q%d", i, i) },
					func(i int) string { return fmt.Sprintf("W%03d", i) },
				}
				safeParallel(r, len(kinds), func(ki int) {
					var b strings.Builder
					b.WriteString(p)
					for k := 1; k <= 300; k++ {
						b.WriteString("/" + kinds[ki](k))
						judge(r, G, gs, ver, level, b.String())
						atomic.AddInt64(&n, 1)
					}
				})
			}
		}
	}
	r.Add("pumped_inputs", n)
}

// decorations: multi-byte and control decorations (byte order mark, zero-width space, no-break
// space, CR, LF, CRLF, tab, brackets, quotes) at the start, at the end, after every separator and
// before every colon of the seed vectors; and tokens / whole inputs filled with 1..400 multi-byte
// runes (a helper that mixes up byte and rune counts).
func decorations(r *ev.Run, G *gprops, gs *gstats, vers []int) {
	decos := []string{"\ufeff", "\u200b", "\u00a0", "\r", "\n", "\r\n", "\t", "(", ")", "\"", "'", "\u3000", "\x00", "\ufffd"}
	var n int64
	for _, ver := range vers {
		for _, seed := range seeds(ver) {
			pos := []int{0, len(seed)}
			for i := 0; i < len(seed); i++ {
				if seed[i] == '/' {
					pos = append(pos, i+1)
				}
				if seed[i] == ':' {
					pos = append(pos, i)
				}
			}
			for _, p := range pos {
				for _, d := range decos {
					for lv := 0; lv < 3; lv++ {
						judge(r, G, gs, ver, lv, seed[:p]+d+seed[p:])
					}
					n++
				}
			}
			for _, d := range decos[:7] {
				for lv := 0; lv < 3; lv++ {
					judge(r, G, gs, ver, lv, d+seed+d)
				}
				n++
			}
			// the whole vector wrapped the way documents and feeds write it (round 5, C08-B-r5: one
			// enclosing pair of parentheses stripped before parsing)
			for _, w := range [][2]string{{"(", ")"}, {"[", "]"}, {"{", "}"}, {"<", ">"}, {"\"", "\""}, {"'", "'"}, {"`", "`"}, {"((", "))"}, {"( ", " )"}, {"(", ")."}, {"CVSS2#", ""}, {"cvss:", ""}, {"CVSS:2.0/", ""}, {"vector=", ""}, {"", ";"}, {"", ","}, {"", "."}, {"", "/"}, {"/", ""}, {"#", ""}, {"\u300c", "\u300d"}, {"\uff08", "\uff09"}} {
				for lv := 0; lv < 3; lv++ {
					judge(r, G, gs, ver, lv, w[0]+seed+w[1])
				}
				n++
			}
		}
		valid := seeds(ver)[0]
		fillers := []string{"日", "é", "\U0001d11e", "\u200b"}
		safeParallel(r, len(fillers), func(fi int) {
			var b strings.Builder
			for k := 1; k <= 400; k++ {
				b.WriteString(fillers[fi])
				for lv := 0; lv < 3; lv++ {
					judge(r, G, gs, ver, lv, valid+"/AV:"+b.String())
					judge(r, G, gs, ver, lv, valid+"/"+b.String()+":N")
					judge(r, G, gs, ver, lv, b.String())
					if ver == 3 {
						judge(r, G, gs, ver, lv, "CVSS:3.1/AV:"+b.String())
						judge(r, G, gs, ver, lv, "CVSS:"+b.String())
					}
				}
				atomic.AddInt64(&n, 3)
			}
		})
	}
	r.Add("decorated_inputs", n)
}

// caseVariants: every valid vector token with its name or its code in every other letter case,
// at every position of a seed vector (a lookup made case-insensitive for one metric only).
func caseVariants(r *ev.Run, G *gprops, gs *gstats, vers []int) {
	cases := func(s string) []string {
		out := map[string]bool{}
		n := len(s)
		for mask := 0; mask < 1<<uint(n); mask++ {
			b := []byte(s)
			for i := 0; i < n; i++ {
				if mask&(1<<uint(i)) != 0 {
					b[i] = byte(strings.ToLower(string(b[i]))[0])
				} else {
					b[i] = byte(strings.ToUpper(string(b[i]))[0])
				}
			}
			if string(b) != s {
				out[string(b)] = true
			}
		}
		var r []string
		for k := range out {
			r = append(r, k)
		}
		sort.Strings(r)
		return r
	}
	var n int64
	for _, ver := range vers {
		for level := 0; level < 3; level++ {
			for _, seed := range seeds(ver) {
				v := lang.Classify(ver, level, seed)
				if !v.Accept {
					continue
				}
				for _, m := range spec.UpTo(ver, level) {
					if _, present := v.Tokens[m.Name]; !present {
						continue
					}
					for _, c := range m.Codes {
						var variants []string
						for _, cv := range cases(c.Code) {
							variants = append(variants, m.Name+":"+cv)
						}
						for _, nv := range cases(m.Name) {
							variants = append(variants, nv+":"+c.Code)
						}
						// a multi-byte character whose low byte (or low 16 bits) equals a code letter: a
						// lookup that narrows a rune to a byte reads it as the code
						if len(c.Code) == 1 {
							for _, hi := range []rune{0x100, 0x200, 0x2500, 0xFF00, 0x10000, 0x1F600} {
								variants = append(variants, m.Name+":"+string(hi|rune(c.Code[0])))
							}
							variants = append(variants, m.Name+":"+c.Code+"\u0301", m.Name+":"+string(rune(c.Code[0])+0xFEE0)) // combining accent, full-width form
						}
						for _, tokText := range variants {
							t := copyTok(v.Tokens)
							delete(t, m.Name)
							// the variant token in the metric's canonical position
							var parts []string
							if ver == 3 {
								parts = append(parts, "CVSS:"+v.Ver)
							}
							for _, mm := range spec.UpTo(ver, level) {
								if mm.Name == m.Name {
									parts = append(parts, tokText)
								} else if code, ok := t[mm.Name]; ok {
									parts = append(parts, mm.Name+":"+code)
								}
							}
							judge(r, G, gs, ver, level, strings.Join(parts, "/"))
							n++
						}
					}
				}
			}
		}
	}
	r.Add("case_variant_inputs", n)
}

// ---------------------------------------------------------------------------------------------
// decoder re-use.  The properties speak of decoders obtained from a constructor; what a decoder
// that has already decoded something does with a second input is not specified, and the pinned
// library mostly rejects it (the metric names of the first input are remembered).  One direction
// is nevertheless implied by C07-C10 for anything a decoder ever accepts: an accepted string is
// well-formed and the returned object holds exactly what that string says.  So: whenever a second
// Decode on a used decoder returns an object, the reference must accept that string and the
// object must be observably equal to a fresh decode of it.  Second inputs always contain every
// base metric, which excludes the pinned library's incremental ("instalment") decoding.

func reuseInputs(ver, level int) []string {
	var out []string
	add := func(tok map[string]string, verLabel string) {
		out = append(out, canonicalWritten(ver, level, verLabel, tok))
	}
	for _, s := range seeds(ver) {
		v := lang.Classify(ver, 2, s)
		if !v.Accept {
			continue
		}
		tok := lang.Project(ver, level, v.Tokens)
		add(tok, v.Ver)
		if ver == 3 {
			other := "3.0"
			if v.Ver == "3.0" {
				other = "3.1"
			}
			add(tok, other)
		}
		// every optional metric dropped in turn (v3: still valid; v2: an incomplete group), and the
		// whole optional groups dropped
		for _, m := range spec.UpTo(ver, level) {
			if m.Level == 0 {
				continue
			}
			if _, ok := tok[m.Name]; ok {
				t := copyTok(tok)
				delete(t, m.Name)
				add(t, v.Ver)
			}
		}
		for lv := 1; lv <= level; lv++ {
			add(lang.Project(ver, lv-1, tok), v.Ver)
		}
		// other values for every metric
		for _, m := range spec.UpTo(ver, level) {
			if _, ok := tok[m.Name]; !ok {
				continue
			}
			for _, c := range m.Codes {
				if c.Code != tok[m.Name] {
					t := copyTok(tok)
					t[m.Name] = c.Code
					add(t, v.Ver)
					break
				}
			}
		}
	}
	return out
}

// sameNamesAndVersion: both inputs are accepted by the reference, carry the same version label and
// the second names no metric the first does not hold.
func sameNamesAndVersion(ver, level int, first, second string) bool {
	a, b := lang.Classify(ver, level, first), lang.Classify(ver, level, second)
	if !a.Accept || !b.Accept || a.Ver != b.Ver {
		return false
	}
	for k := range b.Tokens {
		if _, ok := a.Tokens[k]; !ok {
			return false
		}
	}
	return true
}

// redecodeSameString: Decode(V) succeeds, one exported field (or the version) is set to its
// unknown value, Decode(V) with the very same string is called again on the object.  Whatever
// comes back with a nil error must be a usable object equal to a fresh decode of V.
func redecodeSameString(r *ev.Run, vers []int) {
	var n int64
	for _, ver := range vers {
		for level := 0; level < 3; level++ {
			for _, s := range reuseInputs(ver, level)[:6] {
				if !lang.Classify(ver, level, s).Accept {
					continue
				}
				for _, m := range spec.UpTo(ver, level) {
					d := lib.New(ver, level)
					if o, _, _ := lib.Decode(d, s); o == nil {
						continue
					}
					if _, ok := lib.Field(d, m.Name); !ok {
						continue
					}
					lib.SetField(d, m.Name, lib.EnumOf(ver, m.Name).Unknown)
					obj, err, pan := lib.Decode(d, s)
					n++
					cs := map[string]any{"cvss": ver, "decoder": spec.LevelNames[level], "history": []string{"Decode(" + s + ")", "field " + m.Name + " set to its unknown value", "Decode of the same string on the same object"}}
					if pan != "" {
						r.Violate(ev.Violation{Kind: "second-decode-panics", Case: cs, Observed: pan, Expected: "no panic"})
						continue
					}
					if (obj == nil) == (err == nil) {
						r.Violate(ev.Violation{Kind: "object-xor-error", Case: cs, Observed: fmt.Sprintf("object nil=%v, error nil=%v", obj == nil, err == nil), Expected: "exactly one of object and error"})
						continue
					}
					if obj == nil {
						continue
					}
					fresh, _, _ := lib.DecodeNew(ver, level, s)
					if a, b := observables(obj), observables(fresh); a != b {
						r.Violate(ev.Violation{Kind: "accepted-object-unusable", Case: cs, Observed: a, Expected: b + "  (a fresh decode of the same string); Decode returned a nil error"})
					}
				}
			}
		}
	}
	r.Add("same_string_redecodes", n)
}

func reusePhase(r *ev.Run, vers []int) {
	redecodeSameString(r, vers)
	var n, accepted int64
	for _, ver := range vers {
		for level := 0; level < 3; level++ {
			ins := reuseInputs(ver, level)
			// first inputs: every second input (successful or not), plus inputs rejected before
			// anything is recorded
			firsts := append(append([]string{}, ins...), "", "/", "XX:Y", "n/a", "CVSS:3.1", "CVSS:3.1/XX:Y", "CVSS:4.0/AV:N", "CVSS:3.1/AV:Q")
			if ver == 3 {
				// first inputs that fail on an optional metric's value (the decoders store a value before
				// they check it): a later decode that does not mention that metric must not hand out
				// the object as usable (round 5, C12-B-r5)
				for _, m := range spec.UpTo(3, level) {
					if m.Level > 0 {
						firsts = append(firsts, "CVSS:3.1/"+m.Name+":Z", "CVSS:3.0/"+m.Name+":Q/AV:N")
					}
				}
			}
			if ver == 2 {
				// v2 only (the final comparison with the re-encoding keeps the pinned decoders strict):
				// first inputs that fail after a single optional token, alone or in pairs
				for _, m := range spec.UpTo(2, level) {
					if m.Level == 0 {
						continue
					}
					for _, c := range m.Codes[:2] {
						firsts = append(firsts, m.Name+":"+c.Code)
					}
				}
				firsts = append(firsts, "RL:W/RC:UR", "RC:C/E:F", "TD:H/CDP:L", "AR:H/CR:L/IR:M")
			}
			level := level
			ver := ver
			safeParallel(r, len(firsts), func(fi int) {
				for _, second := range ins {
					d := lib.New(ver, level)
					o1, _, pan := lib.Decode(d, firsts[fi])
					if pan != "" {
						continue // C12's business
					}
					obs1 := ""
					if o1 != nil {
						obs1 = observables(d)
					}
					obj, err, pan := lib.Decode(d, second)
					atomic.AddInt64(&n, 1)
					cs := map[string]any{"cvss": ver, "decoder": spec.LevelNames[level], "first_input": firsts[fi], "second_input_on_the_same_decoder": second}
					if pan != "" {
						r.Violate(ev.Violation{Kind: "second-decode-panics", Case: cs, Observed: pan, Expected: "an error or an object"})
						continue
					}
					if err != nil || obj == nil {
						// a refused second decode that names only metrics the object already holds, under
						// the same version label, must leave the successfully decoded object as it was
						if o1 != nil && sameNamesAndVersion(ver, level, firsts[fi], second) {
							if now := observables(d); now != obs1 {
								r.Violate(ev.Violation{Kind: "refused-second-decode-changes-decoded-object", Case: cs, Observed: now, Expected: obs1 + "  (the object as the first decode returned it)"})
							}
						}
						continue
					}
					atomic.AddInt64(&accepted, 1)
					ref := lang.Classify(ver, level, second)
					if !ref.Accept {
						r.Violate(ev.Violation{Kind: "reused-decoder-accepts-ill-formed-vector", Case: cs, Observed: "accepted", Expected: "rejected: " + strings.Join(ref.DefectList(), ", ")})
						continue
					}
					fresh, ferr, _ := lib.DecodeNew(ver, level, second)
					if ferr != nil || fresh == nil {
						continue
					}
					if a, b := observables(obj), observables(fresh); a != b {
						r.Violate(ev.Violation{Kind: "reused-decoder-returns-other-object", Case: cs, Observed: a, Expected: b + "  (what a fresh decoder returns for the second input)"})
						continue
					}
					for lv := 0; lv < level; lv++ {
						if a, b := lib.Observe(lib.Sub(obj, lv)), lib.Observe(lib.Sub(fresh, lv)); a != b {
							r.Violate(ev.Violation{Kind: "reused-decoder-returns-other-object", Case: with(cs, "view", spec.LevelNames[lv]), Observed: a.String(), Expected: b.String()})
						}
					}
				}
			})
		}
	}
	// v2 only: a vector offered in two pieces (every split point of every second input), and in
	// three.  The pinned v2 decoders compare the input with the re-encoding of the whole object and
	// therefore refuse every continuation; C08 says that a v2 decoder accepts nothing but a complete
	// canonical vector of its level, so a piece that is accepted is a violation (round 4,
	// C08-A-r4: an order check that lives in the decoder object instead of the string).
	var pieces int64
	for _, ver := range vers {
		if ver != 2 {
			continue
		}
		for level := 0; level < 3; level++ {
			for _, whole := range reuseInputs(2, level) {
				toks := strings.Split(whole, "/")
				for k := 1; k < len(toks); k++ {
					for k2 := k; k2 < len(toks); k2++ {
						if k2 > k && (k2-k > 3 && len(toks)-k2 > 3) {
							continue // three pieces: at least one of the later two is short
						}
						parts := []string{strings.Join(toks[:k], "/"), strings.Join(toks[k:], "/")}
						if k2 > k {
							parts = []string{strings.Join(toks[:k], "/"), strings.Join(toks[k:k2], "/"), strings.Join(toks[k2:], "/")}
						}
						d := lib.New(2, level)
						var hist []string
						for pi, part := range parts {
							obj, err, pan := lib.Decode(d, part)
							hist = append(hist, "Decode("+part+")")
							pieces++
							cs := map[string]any{"cvss": 2, "decoder": spec.LevelNames[level], "history_on_one_decoder": append([]string{}, hist...)}
							if pan != "" {
								r.Violate(ev.Violation{Kind: "second-decode-panics", Case: cs, Observed: pan, Expected: "an error or an object"})
								break
							}
							if (obj == nil) == (err == nil) {
								r.Violate(ev.Violation{Kind: "object-xor-error", Case: cs, Observed: fmt.Sprintf("object nil=%v, error nil=%v", obj == nil, err == nil), Expected: "exactly one of object and error"})
								break
							}
							if obj != nil && pi > 0 {
								if ref := lang.Classify(2, level, part); !ref.Accept {
									r.Violate(ev.Violation{Kind: "reused-decoder-accepts-ill-formed-vector", Case: cs, Observed: "accepted", Expected: "rejected: " + strings.Join(ref.DefectList(), ", ")})
									break
								}
							}
						}
					}
				}
			}
		}
	}
	r.Add("reuse_v2_piecewise_decodes", pieces)
	r.Add("reuse_second_decodes", n)
	r.Add("reuse_second_decodes_accepted", accepted)
}
