package main

// C18 (localised names) and the name table shared with C17.

import (
	"fmt"
	"go/ast"
	"go/parser"
	gotoken "go/token"
	"os"
	"path/filepath"
	"sort"
	"strings"

	"cvssmc/internal/ev"
	"cvssmc/internal/lib"

	v3 "github.com/goark/go-cvss/v3/metric"
	"github.com/goark/go-cvss/v3/report/names"
	"golang.org/x/text/language"
)

type nameEntry struct {
	metric    string // vector name ("" for group titles / severity)
	titleName string // exported function names, for the completeness scan
	valueName string
	title     func(language.Tag) string
	value     func(int, language.Tag) string // nil for group titles
}

var nameTable = []nameEntry{
	{"AV", "AttackVector", "AVValueOf", names.AttackVector, func(i int, l language.Tag) string { return names.AVValueOf(v3.AttackVector(i), l) }},
	{"AC", "AttackComplexity", "ACValueOf", names.AttackComplexity, func(i int, l language.Tag) string { return names.ACValueOf(v3.AttackComplexity(i), l) }},
	{"PR", "PrivilegesRequired", "PRValueOf", names.PrivilegesRequired, func(i int, l language.Tag) string { return names.PRValueOf(v3.PrivilegesRequired(i), l) }},
	{"UI", "UserInteraction", "UIValueOf", names.UserInteraction, func(i int, l language.Tag) string { return names.UIValueOf(v3.UserInteraction(i), l) }},
	{"S", "Scope", "SValueOf", names.Scope, func(i int, l language.Tag) string { return names.SValueOf(v3.Scope(i), l) }},
	{"C", "ConfidentialityImpact", "CValueOf", names.ConfidentialityImpact, func(i int, l language.Tag) string { return names.CValueOf(v3.ConfidentialityImpact(i), l) }},
	{"I", "IntegrityImpact", "IValueOf", names.IntegrityImpact, func(i int, l language.Tag) string { return names.IValueOf(v3.IntegrityImpact(i), l) }},
	{"A", "AvailabilityImpact", "AValueOf", names.AvailabilityImpact, func(i int, l language.Tag) string { return names.AValueOf(v3.AvailabilityImpact(i), l) }},
	{"E", "Exploitability", "EValueOf", names.Exploitability, func(i int, l language.Tag) string { return names.EValueOf(v3.Exploitability(i), l) }},
	{"RL", "RemediationLevel", "RLValueOf", names.RemediationLevel, func(i int, l language.Tag) string { return names.RLValueOf(v3.RemediationLevel(i), l) }},
	{"RC", "ReportConfidence", "RCValueOf", names.ReportConfidence, func(i int, l language.Tag) string { return names.RCValueOf(v3.ReportConfidence(i), l) }},
	{"CR", "ConfidentialityRequirement", "CRValueOf", names.ConfidentialityRequirement, func(i int, l language.Tag) string { return names.CRValueOf(v3.ConfidentialityRequirement(i), l) }},
	{"IR", "IntegrityRequirement", "IRValueOf", names.IntegrityRequirement, func(i int, l language.Tag) string { return names.IRValueOf(v3.IntegrityRequirement(i), l) }},
	{"AR", "AvailabilityRequirement", "ARValueOf", names.AvailabilityRequirement, func(i int, l language.Tag) string { return names.ARValueOf(v3.AvailabilityRequirement(i), l) }},
	{"MAV", "ModifiedAttackVector", "MAVValueOf", names.ModifiedAttackVector, func(i int, l language.Tag) string { return names.MAVValueOf(v3.ModifiedAttackVector(i), l) }},
	{"MAC", "ModifiedAttackComplexity", "MACValueOf", names.ModifiedAttackComplexity, func(i int, l language.Tag) string { return names.MACValueOf(v3.ModifiedAttackComplexity(i), l) }},
	{"MPR", "ModifiedPrivilegesRequired", "MPRValueOf", names.ModifiedPrivilegesRequired, func(i int, l language.Tag) string { return names.MPRValueOf(v3.ModifiedPrivilegesRequired(i), l) }},
	{"MUI", "ModifiedUserInteraction", "MUIValueOf", names.ModifiedUserInteraction, func(i int, l language.Tag) string { return names.MUIValueOf(v3.ModifiedUserInteraction(i), l) }},
	{"MS", "ModifiedScope", "MSValueOf", names.ModifiedScope, func(i int, l language.Tag) string { return names.MSValueOf(v3.ModifiedScope(i), l) }},
	{"MC", "ModifiedConfidentialityImpact", "MCValueOf", names.ModifiedConfidentialityImpact, func(i int, l language.Tag) string { return names.MCValueOf(v3.ModifiedConfidentialityImpact(i), l) }},
	{"MI", "ModifiedIntegrityImpact", "MIValueOf", names.ModifiedIntegrityImpact, func(i int, l language.Tag) string { return names.MIValueOf(v3.ModifiedIntegrityImpact(i), l) }},
	{"MA", "ModifiedAvailabilityImpact", "MAValueOf", names.ModifiedAvailabilityImpact, func(i int, l language.Tag) string { return names.MAValueOf(v3.ModifiedAvailabilityImpact(i), l) }},
	{"", "Severity", "SeverityValueOf", names.Severity, func(i int, l language.Tag) string { return names.SeverityValueOf(v3.Severity(i), l) }},
	// group titles and their column headers (no value argument)
	{"", "BaseMetrics", "BaseMetricsValueOf", names.BaseMetrics, nil},
	{"", "TemporalMetrics", "TemporalMetricsValueOf", names.TemporalMetrics, nil},
	{"", "EnvironmentalMetrics", "EnvironmentalMetricsValueOf", names.EnvironmentalMetrics, nil},
}

var headerFns = map[string]func(language.Tag) string{
	"BaseMetricsValueOf": names.BaseMetricsValueOf, "TemporalMetricsValueOf": names.TemporalMetricsValueOf, "EnvironmentalMetricsValueOf": names.EnvironmentalMetricsValueOf,
}

func nameEntryOf(metric string) *nameEntry {
	for i := range nameTable {
		if nameTable[i].metric == metric {
			return &nameTable[i]
		}
	}
	return nil
}

func severityEntry() *nameEntry { return &nameTable[22] }

// repoDir locates the library source the harness is built against (module replace target).
func repoDir() string {
	if d := os.Getenv("VERIF_REPO"); d != "" {
		return d
	}
	return "/repo"
}

// exportedFuncs lists the exported top-level functions of a package directory (non-test files).
func exportedFuncs(dir string) ([]string, error) {
	fset := gotoken.NewFileSet()
	pkgs, err := parser.ParseDir(fset, dir, func(fi os.FileInfo) bool { return !strings.HasSuffix(fi.Name(), "_test.go") }, 0)
	if err != nil {
		return nil, err
	}
	var out []string
	for _, p := range pkgs {
		for _, f := range p.Files {
			for _, d := range f.Decls {
				if fd, ok := d.(*ast.FuncDecl); ok && fd.Recv == nil && fd.Name.IsExported() {
					out = append(out, fd.Name.Name)
				}
			}
		}
	}
	sort.Strings(out)
	return out, nil
}

// languages: tags whose base language is neither English nor Japanese.
func otherLanguages() []language.Tag {
	codes := strings.Fields("af am ar az bg bn ca cs da de el es et fa fi fil fr gu he hi hr hu hy id is it ka kk km kn ko ky lo lt lv mk ml mn mr ms my ne nl no pa pl pt ro ru si sk sl sq sr sv sw ta te th tr uk ur uz vi zh zu und " +
		"zh-Hans zh-Hant zh-TW pt-BR es-419 fr-CA sr-Latn de-CH nb nn cy eu gl ga la eo jv yue haw mul zxx art-x-private tlh")
	// every two- and three-letter base language subtag the language package knows
	for a := 'a'; a <= 'z'; a++ {
		for b := 'a'; b <= 'z'; b++ {
			codes = append(codes, string([]rune{a, b}))
			for c := 'a'; c <= 'z'; c++ {
				codes = append(codes, string([]rune{a, b, c}))
			}
		}
	}
	// undetermined language with every region and a list of scripts, and other languages in Japan
	for a := 'A'; a <= 'Z'; a++ {
		for b := 'A'; b <= 'Z'; b++ {
			codes = append(codes, "und-"+string([]rune{a, b}))
		}
	}
	for _, sc := range strings.Fields("Jpan Hira Kana Hrkt Hani Hans Hant Latn Cyrl Arab Kore Grek Hebr Thai Deva") {
		codes = append(codes, "und-"+sc, "und-"+sc+"-JP", "zh-"+sc)
	}
	codes = append(codes, "fr-JP", "zh-JP", "ko-JP", "ryu", "ain", "und-JP-u-ca-japanese", "und-u-rg-jpzzzz", "fr-u-rg-jpzzzz", "de-US")
	// other languages in every script, with and without a region, a variant, an extension, a
	// private-use part that spells a supported language (round 6, C18-A-r6: language.Matcher maps
	// any language written in Jpan to Japanese)
	for _, l := range strings.Fields("fr de zh ko es ru ar hi pt it nl sv pl tr vi th id he el ain ryu mul und") {
		for _, sc := range strings.Fields("Jpan Hira Kana Hrkt Hani Hans Hant Latn Cyrl Arab Kore") {
			codes = append(codes, l+"-"+sc, l+"-"+sc+"-JP", l+"-"+sc+"-US", l+"-"+sc+"-KR")
		}
		codes = append(codes, l+"-JP", l+"-US", l+"-GB", l+"-x-ja", l+"-x-en", l+"-x-japanese", l+"-u-rg-jpzzzz", l+"-u-ca-japanese", l+"-t-ja", l+"-t-en", l+"-JP-x-ja", l+"-u-co-unihan", l+"-1996", l+"-x-ja-JP")
	}
	seen := map[language.Tag]bool{}
	var r []language.Tag
	for _, c := range codes {
		t, err := language.Parse(c)
		if err != nil {
			continue
		}
		// the tag's own language subtag decides (Base() would infer Japanese for und-JP)
		if l, _, _ := t.Raw(); l.String() == "en" || l.String() == "ja" {
			continue
		}
		if seen[t] {
			continue
		}
		seen[t] = true
		r = append(r, t)
	}
	return r
}

func init() {
	register("C18", "exploration", func(r *ev.Run, thorough bool) {
		en, ja := language.English, language.Japanese
		var evals, distinct int64
		// completeness of the harness table against the package's exported functions
		fns, err := exportedFuncs(filepath.Join(repoDir(), "v3", "report", "names"))
		if err != nil {
			r.Infra("cannot scan v3/report/names: " + err.Error())
			return
		}
		have := map[string]bool{}
		for _, e := range nameTable {
			have[e.titleName], have[e.valueName] = true, true
		}
		for _, f := range fns {
			if !have[f] {
				r.Set("uncovered_function_names."+f, "exported by the package but not in the harness table (names.go); not judged")
			}
		}
		for f := range have {
			found := false
			for _, g := range fns {
				if g == f {
					found = true
				}
			}
			if !found {
				r.Infra("harness table names a function the package no longer exports: " + f)
			}
		}
		r.Set("exported_name_functions", int64(len(fns)))
		others := otherLanguages()
		r.Set("other_language_tags", int64(len(others)))
		nameCase := func(fn string, arg any, lang language.Tag) map[string]any {
			return map[string]any{"function": "names." + fn, "argument": arg, "language": lang.String()}
		}
		titleCheck := func(fn string, f func(language.Tag) string) {
			for _, l := range []language.Tag{en, ja} {
				evals++
				if f(l) == "" {
					r.Violate(ev.Violation{Kind: "empty-title", Case: nameCase(fn, nil, l), Observed: "empty", Expected: "a non-empty display name"})
				}
			}
			if f(en) == f(ja) {
				// not required by the property; only recorded
				r.Add("titles_identical_in_en_and_ja", 1)
			}
			for _, l := range others {
				evals++
				if got := f(l); got != f(en) {
					r.Violate(ev.Violation{Kind: "fallback-not-english", Case: nameCase(fn, nil, l), Observed: got, Expected: f(en)})
				}
			}
			distinct += int64(2 + len(others))
		}
		jaUnknown := ""
		for _, e := range nameTable {
			titleCheck(e.titleName, e.title)
			if e.value == nil {
				titleCheck(e.valueName, headerFns[e.valueName])
				continue
			}
			// defined values
			var defined []int
			var codes []string
			if e.metric != "" {
				le := lib.EnumOf(3, e.metric)
				defined = le.Consts
				for _, c := range le.Codes {
					codes = append(codes, c.Code)
				}
			} else {
				defined = []int{int(v3.SeverityNone), int(v3.SeverityLow), int(v3.SeverityMedium), int(v3.SeverityHigh), int(v3.SeverityCritical)}
				codes = []string{"None", "Low", "Medium", "High", "Critical"}
			}
			isDef := map[int]bool{}
			for _, d := range defined {
				isDef[d] = true
			}
			for _, l := range []language.Tag{en, ja} {
				seen := map[string]string{}
				for k, d := range defined {
					evals++
					distinct++
					n := e.value(d, l)
					if n == "" {
						r.Violate(ev.Violation{Kind: "empty-value-name", Case: nameCase(e.valueName, codes[k], l), Observed: "empty", Expected: "a non-empty display name"})
					}
					if prev, dup := seen[n]; dup {
						r.Violate(ev.Violation{Kind: "ambiguous-value-name", Case: nameCase(e.valueName, codes[k], l), Observed: fmt.Sprintf("%q, the same name as value %s", n, prev), Expected: "different names for different values"})
					}
					seen[n] = codes[k]
				}
				// out-of-range integers, zero included
				max := 0
				for _, d := range defined {
					if d > max {
						max = d
					}
				}
				probes := []int{-1 << 31, -2, -1, 0, max + 1, max + 2, 1 << 31}
				// integers that alias a defined value when truncated to 8, 16 or 32 bits
				for _, d := range defined {
					probes = append(probes, d+1<<8, d-1<<8, d+1<<16, d+1<<32, d-1<<32, d+5<<32, d+1<<48)
				}
				for _, i := range probes {
					if isDef[i] {
						continue
					}
					evals++
					distinct++
					n := e.value(i, l)
					if l == en && n != "Unknown" {
						r.Violate(ev.Violation{Kind: "out-of-range-name", Case: nameCase(e.valueName, i, l), Observed: n, Expected: "Unknown"})
					}
					if l == ja {
						if jaUnknown == "" {
							jaUnknown = n
						}
						if n == "" || n != jaUnknown {
							r.Violate(ev.Violation{Kind: "out-of-range-name", Case: nameCase(e.valueName, i, l), Observed: n, Expected: fmt.Sprintf("%q (the Japanese name every other out-of-range value gets)", jaUnknown)})
						}
						if prev, clash := seen[n]; clash {
							r.Violate(ev.Violation{Kind: "out-of-range-name", Case: nameCase(e.valueName, i, l), Observed: fmt.Sprintf("%q, the name of defined value %s", n, prev), Expected: "the unknown name"})
						}
					}
				}
			}
			// other languages: exactly the English string, for defined and out-of-range values
			for _, l := range others {
				for _, d := range append(append([]int{}, defined...), -1, 0, 99) {
					evals++
					if got, want := e.value(d, l), e.value(d, en); got != want {
						r.Violate(ev.Violation{Kind: "fallback-not-english", Case: nameCase(e.valueName, d, l), Observed: got, Expected: want})
					}
				}
			}
			// Modified metric: same name as the base metric value with the same code
			if e.metric != "" {
				if bm := lib.EnumOf(3, e.metric).Base; bm != "" {
					be, ben, men := nameEntryOf(bm), lib.EnumOf(3, bm), lib.EnumOf(3, e.metric)
					for k, c := range men.Codes {
						bc, ok := ben.ConstOf(c.Code)
						if !ok {
							continue // X has no base counterpart
						}
						for _, l := range append([]language.Tag{en, ja}, others[:3]...) {
							evals++
							if got, want := e.value(men.Consts[k], l), be.value(bc, l); got != want {
								r.Violate(ev.Violation{Kind: "modified-name-differs-from-base", Case: nameCase(e.valueName, c.Code, l), Observed: got, Expected: fmt.Sprintf("%q (names.%s of the same code)", want, be.valueName)})
							}
						}
					}
				}
			}
		}
		var fe [][]string
		for i := range nameTable {
			fe = append(fe, []string{"name", fmt.Sprint(i)})
		}
		firstUse(r, fe)
		// language churn: 5,000 (thorough 70,000) distinct language tags in one process; every 61st
		// step the English, Japanese, undetermined and two recent tags are asked again (round 6,
		// C17-B-r6: a bounded table of resolved languages that drifts once 4,096 tags were seen)
		r.Phase("language churn", func() {
			steps := 5000
			if thorough {
				steps = 70000
			}
			probe := func(l language.Tag) string {
				var b strings.Builder
				for _, e := range nameTable {
					b.WriteString(e.title(l))
					if e.value != nil {
						b.WriteString(e.value(1, l) + e.value(99, l))
					}
				}
				return b.String()
			}
			refEn, refJa := probe(en), probe(ja)
			var recent []language.Tag
			for i := 1; i <= steps; i++ {
				t, err := language.Parse(fmt.Sprintf("%s-x-n%05d", []string{"de", "fr", "zh", "und", "ko"}[i%5], i))
				if err != nil {
					continue
				}
				got := nameTable[i%len(nameTable)].title(t)
				evals++
				if want := nameTable[i%len(nameTable)].title(en); got != want {
					r.Violate(ev.Violation{Kind: "fallback-not-english", Case: nameCase(nameTable[i%len(nameTable)].titleName, nil, t), Observed: got, Expected: want})
					break
				}
				recent = append(recent, t)
				if i%61 == 0 || i == steps {
					bad := ""
					switch {
					case probe(en) != refEn:
						bad = "English names changed"
					case probe(ja) != refJa:
						bad = "Japanese names changed"
					case probe(language.Und) != refEn:
						bad = "names for the undetermined language are no longer the English ones"
					case probe(recent[len(recent)-1]) != refEn, probe(recent[len(recent)/2]) != refEn:
						bad = "names for a language tag used before are no longer the English ones"
					}
					evals += 5
					if bad != "" {
						r.Violate(ev.Violation{Kind: "names-change-after-many-language-tags", Case: map[string]any{"distinct_language_tags_used_so_far": i, "tags": "de-x-n00001, fr-x-n00002, zh-x-n00003, ... (one title function called with each)"}, Observed: bad, Expected: "the names of a language do not depend on which other languages the process asked for before"})
						break
					}
				}
			}
			r.Set("language_churn_distinct_tags", steps)
		})
		r.Phase("names after other process histories and under other environments", func() {
			var es [][]string
			for _, l := range []string{"und", "fr", "en", "ja", "ja-JP", "zh-Hans", "en-GB", "mul"} {
				es = append(es, []string{"namesall", l})
			}
			historyAndEnvironment(r, es, []string{"both"})
		})
		// the language fallback as a user meets it: through the language options of the report
		// constructors (one to three options over {en, ja, fr, und}, DESIGN.md 10.4)
		r.Phase("names through report language options", func() { optionLists(r, &evals) })
		r.Add("evaluations", evals)
		r.Add("distinct_nontrivial", distinct)
		r.Sample(map[string]any{"function": "names.MPRValueOf", "arguments": "X,N,L,H and -2^31,-2,-1,0,5,6,2^31", "languages": "en, ja, " + fmt.Sprint(len(others)) + " other tags"})
		r.Set("exhaustive", true)
		r.Set("rule", "all 52 exported functions of v3/report/names (list checked against a parse of the package) x every defined enumeration value and out-of-range integers (zero included) x {en, ja, every other language: all two- and three-letter base language subtags golang.org/x/text/language accepts plus script/region variants}: non-empty en/ja names for titles, defined values (Not Defined included) and severities; injective per metric and language; Modified value name == base value name for the same code; out-of-range => Unknown / one common Japanese name; non-en/ja language => exactly the English string; regional en-*/ja-* variants unchecked (left unspecified by the property); distinct by (function, value, language)")
	})
}
