package main

import (
	"fmt"
	"math"
	"sync/atomic"

	"cvssmc/internal/ev"
	"cvssmc/internal/lib"
	"cvssmc/internal/oracle"
	"cvssmc/internal/spec"

	v3 "github.com/goark/go-cvss/v3/metric"
)

// product enumerates all code assignments of the given metrics; codes(m) selects the codes.
func product(ms []spec.Metric, codes func(m *spec.Metric) []string, fn func(tok map[string]string)) {
	tok := map[string]string{}
	var rec func(i int)
	rec = func(i int) {
		if i == len(ms) {
			fn(tok)
			return
		}
		for _, c := range codes(&ms[i]) {
			tok[ms[i].Name] = c
			rec(i + 1)
		}
		delete(tok, ms[i].Name)
	}
	rec(0)
}

func allCodes(m *spec.Metric) []string {
	r := make([]string, len(m.Codes))
	for i, c := range m.Codes {
		r[i] = c.Code
	}
	return r
}

func copyTok(t map[string]string) map[string]string {
	r := make(map[string]string, len(t)+14)
	for k, v := range t {
		r[k] = v
	}
	return r
}

func merge(a, b map[string]string) map[string]string {
	r := copyTok(a)
	for k, v := range b {
		r[k] = v
	}
	return r
}

// allTok returns every assignment of the metrics of (ver, level).
func allTok(ver, level int) []map[string]string {
	var r []map[string]string
	product(spec.At(ver, level), allCodes, func(t map[string]string) { r = append(r, copyTok(t)) })
	return r
}

// enumV3 runs evalDecoded over ver x base x temporal (complete) with the given decoders and,
// optionally, environmental suffixes.
func enumV3Temporal(r *ev.Run, P props, st *enumStats, decoders []int, envSuffixes []map[string]string) {
	bases := allTok(3, 0)
	temps := allTok(3, 1)
	var n, dist int64
	safeParallel(r, len(bases)*2, func(i int) {
		verLabel := spec.V3Versions[i%2]
		b := bases[i/2]
		var ln int64
		for _, t := range temps {
			tok := merge(b, t)
			for _, dec := range decoders {
				if dec == 1 {
					c := &dcase{ver: 3, level: 1, tok: tok, verLabel: verLabel}
					c.s = canonicalWritten(3, 1, verLabel, tok)
					evalDecoded(r, P, st, c)
					ln++
				}
				if dec == 2 {
					for _, e := range envSuffixes {
						tk := merge(tok, e)
						c := &dcase{ver: 3, level: 2, tok: tk, verLabel: verLabel}
						c.s = canonicalWritten(3, 2, verLabel, tk)
						evalDecoded(r, P, st, c)
						ln++
					}
				}
			}
		}
		atomic.AddInt64(&n, ln)
		atomic.AddInt64(&dist, int64(len(temps)))
		if i == 777 {
			r.Sample(canonicalWritten(3, 1, verLabel, merge(b, temps[37])))
		}
	})
	r.Add("evaluations", n)
	r.Add("distinct_nontrivial", dist)
}

// ---------------------------------------------------------------------------------------------
// C02

func init() {
	register("C02", "exploration", func(r *ev.Run, thorough bool) {
		st := newStats()
		P := noScore
		P.scoreLevel = 1
		decs := []int{1}
		if thorough {
			decs = []int{1, 2}
		}
		enumV3Temporal(r, P, st, decs, []map[string]string{{}, {"MS": "C", "CR": "H", "MAV": "P"}})
		omittedTemporal(r, P, st)
		r.Phase("score sequences", func() { scoreSequences(r, 3, 1) })
		r.Phase("higher levels queried first", func() { topFirstSweep(r, 3, 1) })
		r.Phase("first use in fresh processes", func() { firstUseScores(r, 3, 1); historyVariantsFor(r, 3, 1) })
		st.report(r, 3)
		o := oracle.GetV3()
		r.Set("oracle_ambiguous_roundings", int64(o.Ambiguous))
		r.Set("rule", "every (version, 8 base metrics, E, RL, RC) combination = 2*2592*100 vectors, each decoded by the real temporal decoder (thorough: also by the environmental decoder, without and with environmental metrics, scoring TemporalMetrics()); a case is distinct by its token set; expected value from the exact rational oracle; plus every subset of {E,RL,RC} omitted instead of written as X on 16 base vectors")
		r.Set("exhaustive", true)
		r.Assume("exact oracle: math/big.Rat evaluation of Roundup(Base*E*RL*RC) on the rounded base score, specification weights transcribed in internal/spec")
		r.Assume("ceiling and Appendix-A round-up agree on every table entry (oracle_ambiguous_roundings=0), so the expected value is unambiguous")
	})
}

// omittedTemporal: every subset of {E,RL,RC} omitted rather than written as X.
func omittedTemporal(r *ev.Run, P props, st *enumStats) {
	bases := allTok(3, 0)
	temps := allTok(3, 1)
	var n int64
	pick := []int{0, 5, 161, 333, 777, 1024, 1295, 1296, 1500, 1999, 2222, 2400, 2500, 2555, 2590, 2591}
	safeParallel(r, len(pick), func(i int) {
		b := bases[pick[i]]
		for _, verLabel := range spec.V3Versions {
			for _, t := range temps {
				for mask := 1; mask < 8; mask++ {
					tok := copyTok(b)
					skip := false
					for j, name := range []string{"E", "RL", "RC"} {
						if mask&(1<<j) != 0 {
							if t[name] != "X" {
								skip = true
							}
							continue
						}
						tok[name] = t[name]
					}
					if skip {
						continue
					}
					for _, dec := range []int{1, 2} {
						c := &dcase{ver: 3, level: dec, tok: tok, verLabel: verLabel}
						c.s = canonicalWritten(3, dec, verLabel, tok)
						evalDecoded(r, P, st, c)
						atomic.AddInt64(&n, 1)
					}
				}
			}
		}
	})
	r.Add("evaluations", n)
	r.Add("omitted_metric_cases", n)
}

// ---------------------------------------------------------------------------------------------
// C03: F-path over the complete environmental product

// library enum values in spec order
var (
	l3AV  = []v3.AttackVector{v3.AttackVectorNetwork, v3.AttackVectorAdjacent, v3.AttackVectorLocal, v3.AttackVectorPhysical}
	l3AC  = []v3.AttackComplexity{v3.AttackComplexityLow, v3.AttackComplexityHigh}
	l3PR  = []v3.PrivilegesRequired{v3.PrivilegesRequiredNone, v3.PrivilegesRequiredLow, v3.PrivilegesRequiredHigh}
	l3UI  = []v3.UserInteraction{v3.UserInteractionNone, v3.UserInteractionRequired}
	l3S   = []v3.Scope{v3.ScopeUnchanged, v3.ScopeChanged}
	l3C   = []v3.ConfidentialityImpact{v3.ConfidentialityImpactHigh, v3.ConfidentialityImpactLow, v3.ConfidentialityImpactNone}
	l3I   = []v3.IntegrityImpact{v3.IntegrityImpactHigh, v3.IntegrityImpactLow, v3.IntegrityImpactNone}
	l3A   = []v3.AvailabilityImpact{v3.AvailabilityImpactHigh, v3.AvailabilityImpactLow, v3.AvailabilityImpactNone}
	l3E   = []v3.Exploitability{v3.ExploitabilityNotDefined, v3.ExploitabilityHigh, v3.ExploitabilityFunctional, v3.ExploitabilityProofOfConcept, v3.ExploitabilityUnproven}
	l3RL  = []v3.RemediationLevel{v3.RemediationLevelNotDefined, v3.RemediationLevelUnavailable, v3.RemediationLevelWorkaround, v3.RemediationLevelTemporaryFix, v3.RemediationLevelOfficialFix}
	l3RC  = []v3.ReportConfidence{v3.ReportConfidenceNotDefined, v3.ReportConfidenceConfirmed, v3.ReportConfidenceReasonable, v3.ReportConfidenceUnknown}
	l3CR  = []v3.ConfidentialityRequirement{v3.ConfidentialityRequirementNotDefined, v3.ConfidentialityRequirementHigh, v3.ConfidentialityRequirementMedium, v3.ConfidentialityRequirementLow}
	l3IR  = []v3.IntegrityRequirement{v3.IntegrityRequirementNotDefined, v3.IntegrityRequirementHigh, v3.IntegrityRequirementMedium, v3.IntegrityRequirementLow}
	l3AR  = []v3.AvailabilityRequirement{v3.AvailabilityRequirementNotDefined, v3.AvailabilityRequirementHigh, v3.AvailabilityRequirementMedium, v3.AvailabilityRequirementLow}
	l3MAV = []v3.ModifiedAttackVector{v3.ModifiedAttackVectorNotDefined, v3.ModifiedAttackVectorNetwork, v3.ModifiedAttackVectorAdjacent, v3.ModifiedAttackVectorLocal, v3.ModifiedAttackVectorPhysical}
	l3MAC = []v3.ModifiedAttackComplexity{v3.ModifiedAttackComplexityNotDefined, v3.ModifiedAttackComplexityLow, v3.ModifiedAttackComplexityHigh}
	l3MPR = []v3.ModifiedPrivilegesRequired{v3.ModifiedPrivilegesRequiredNotDefined, v3.ModifiedPrivilegesRequiredNone, v3.ModifiedPrivilegesRequiredLow, v3.ModifiedPrivilegesRequiredHigh}
	l3MUI = []v3.ModifiedUserInteraction{v3.ModifiedUserInteractionNotDefined, v3.ModifiedUserInteractionNone, v3.ModifiedUserInteractionRequired}
	l3MS  = []v3.ModifiedScope{v3.ModifiedScopeNotDefined, v3.ModifiedScopeUnchanged, v3.ModifiedScopeChanged}
	l3MC  = []v3.ModifiedConfidentialityImpact{v3.ModifiedConfidentialityImpactNotDefined, v3.ModifiedConfidentialityImpactHigh, v3.ModifiedConfidentialityImpactLow, v3.ModifiedConfidentialityImpactNone}
	l3MI  = []v3.ModifiedIntegrityImpact{v3.ModifiedIntegrityImpactNotDefined, v3.ModifiedIntegrityImpactHigh, v3.ModifiedIntegrityImpactLow, v3.ModifiedIntegrityImpactNone}
	l3MA  = []v3.ModifiedAvailabilityImpact{v3.ModifiedAvailabilityImpactNotDefined, v3.ModifiedAvailabilityImpactHigh, v3.ModifiedAvailabilityImpactLow, v3.ModifiedAvailabilityImpactNone}
)

// setV3 assigns every exported field of em from oracle indices (F-path).
func setV3(em *v3.Environmental, c *oracle.V3Case) {
	if c.Ver == 0 {
		em.Ver = v3.V3_0
	} else {
		em.Ver = v3.V3_1
	}
	em.AV, em.AC, em.PR, em.UI, em.S, em.C, em.I, em.A = l3AV[c.AV], l3AC[c.AC], l3PR[c.PR], l3UI[c.UI], l3S[c.S], l3C[c.C], l3I[c.I], l3A[c.A]
	em.E, em.RL, em.RC = l3E[c.E], l3RL[c.RL], l3RC[c.RC]
	em.CR, em.IR, em.AR = l3CR[c.CR], l3IR[c.IR], l3AR[c.AR]
	em.MAV, em.MAC, em.MPR, em.MUI, em.MS = l3MAV[c.MAV], l3MAC[c.MAC], l3MPR[c.MPR], l3MUI[c.MUI], l3MS[c.MS]
	em.MC, em.MI, em.MA = l3MC[c.MC], l3MI[c.MI], l3MA[c.MA]
}

// vecV3 renders the case as a full environmental vector.
func vecV3(c *oracle.V3Case) (string, map[string]string) {
	tok := map[string]string{}
	idx := []int{c.AV, c.AC, c.PR, c.UI, c.S, c.C, c.I, c.A, c.E, c.RL, c.RC, c.CR, c.IR, c.AR, c.MAV, c.MAC, c.MPR, c.MUI, c.MS, c.MC, c.MI, c.MA}
	for i, m := range spec.V3 {
		tok[m.Name] = m.Codes[idx[i]].Code
	}
	return canonicalWritten(3, 2, spec.V3Versions[c.Ver], tok), tok
}

// fpathCounters accumulates per-worker results of the hot loop.
type fpathCounters struct {
	n, bad, capBinds, nonPos, zero, changedEff int64
}

// fpathCheckV3 evaluates one F-path case: the score against the oracle (when P asks for the
// environmental score) and the C06 grid/band oracle on the reported score (when P.grid).
func fpathCheckV3(em *v3.Environmental, c *oracle.V3Case, o *oracle.V3, P props) (fail string, got float64, want int) {
	want = o.EnvT(c)
	got = em.Score()
	if P.scoreLevel == 2 && got != float64(want)/10 {
		return "score", got, want
	}
	if P.grid {
		t := int(math.Round(got * 10))
		if got != float64(t)/10 || t < 0 || t > 100 {
			return "off-grid", got, want
		}
		if em.Severity().String() != spec.V3Band(t) {
			return "severity-band", got, want
		}
	}
	return "", got, want
}

func reportFpathV3(r *ev.Run, c oracle.V3Case, got float64, want int, kind string) {
	s, _ := vecV3(&c)
	exp := fmt.Sprint(float64(want) / 10)
	if kind != "score" {
		exp = "a tenth in [0,10] whose band is the reported severity"
	}
	r.Violate(ev.Violation{Kind: kind, Case: map[string]any{"cvss": 3, "decoder": "environmental", "vector": s, "path": "exported fields assigned directly, then Score()"},
		Observed: fmt.Sprint(got), Expected: exp,
		GoTest: fmt.Sprintf("m, err := v3.NewEnvironmental().Decode(%q)\nif err != nil { t.Fatal(err) }\nt.Log(m.Score(), m.Severity()) // specification: %v %s", s, float64(want)/10, spec.V3Band(want))})
}

// envFull enumerates ver x base x all 2,211,840 environmental combinations at the given
// temporal settings (F-path).  baseFilter selects base combinations (nil = all).
func envFull(r *ev.Run, P props, temporal [][3]int, baseEvery int) {
	o := oracle.GetV3()
	type job struct{ ver, av, ac, pr, ui, s int }
	var jobs []job
	for ver := 0; ver < 2; ver++ {
		for av := 0; av < 4; av++ {
			for ac := 0; ac < 2; ac++ {
				for pr := 0; pr < 3; pr++ {
					for ui := 0; ui < 2; ui++ {
						for s := 0; s < 2; s++ {
							jobs = append(jobs, job{ver, av, ac, pr, ui, s})
						}
					}
				}
			}
		}
	}
	var tot fpathCounters
	safeParallel(r, len(jobs), func(ji int) {
		j := jobs[ji]
		var l fpathCounters
		em := v3.NewEnvironmental()
		k := 0
		for c := 0; c < 3; c++ {
			for i := 0; i < 3; i++ {
				for a := 0; a < 3; a++ {
					k++
					if baseEvery > 1 && (ji*27+k)%baseEvery != 0 {
						continue
					}
					cs := oracle.V3Case{Ver: j.ver, AV: j.av, AC: j.ac, PR: j.pr, UI: j.ui, S: j.s, C: c, I: i, A: a}
					// reach the object state through the real decoder once, then assign fields
					s, _ := vecV3(&cs)
					dm, err := v3.NewEnvironmental().Decode(s)
					if err != nil {
						r.Violate(ev.Violation{Kind: "valid-vector-not-decoded", Case: map[string]any{"vector": s}, Observed: err.Error(), Expected: "accepted"})
						continue
					}
					em = dm
					for _, ti := range temporal {
						cs.E, cs.RL, cs.RC = ti[0], ti[1], ti[2]
						em.E, em.RL, em.RC = l3E[ti[0]], l3RL[ti[1]], l3RC[ti[2]]
						for cs.CR = 0; cs.CR < 4; cs.CR++ {
							em.CR = l3CR[cs.CR]
							for cs.IR = 0; cs.IR < 4; cs.IR++ {
								em.IR = l3IR[cs.IR]
								for cs.AR = 0; cs.AR < 4; cs.AR++ {
									em.AR = l3AR[cs.AR]
									for cs.MC = 0; cs.MC < 4; cs.MC++ {
										em.MC = l3MC[cs.MC]
										for cs.MI = 0; cs.MI < 4; cs.MI++ {
											em.MI = l3MI[cs.MI]
											for cs.MA = 0; cs.MA < 4; cs.MA++ {
												em.MA = l3MA[cs.MA]
												for cs.MS = 0; cs.MS < 3; cs.MS++ {
													em.MS = l3MS[cs.MS]
													cb, np := o.EnvInfo(&cs)
													for cs.MAV = 0; cs.MAV < 5; cs.MAV++ {
														em.MAV = l3MAV[cs.MAV]
														for cs.MAC = 0; cs.MAC < 3; cs.MAC++ {
															em.MAC = l3MAC[cs.MAC]
															for cs.MPR = 0; cs.MPR < 4; cs.MPR++ {
																em.MPR = l3MPR[cs.MPR]
																for cs.MUI = 0; cs.MUI < 3; cs.MUI++ {
																	em.MUI = l3MUI[cs.MUI]
																	fail, got, want := fpathCheckV3(em, &cs, o, P)
																	l.n++
																	if fail != "" {
																		l.bad++
																		if l.bad <= 2 {
																			reportFpathV3(r, cs, got, want, fail)
																		}
																	}
																}
															}
														}
													}
													if cb {
														l.capBinds += 180
													}
													if np {
														l.nonPos += 180
													}
												}
											}
										}
									}
								}
							}
						}
					}
				}
			}
		}
		atomic.AddInt64(&tot.n, l.n)
		atomic.AddInt64(&tot.bad, l.bad)
		atomic.AddInt64(&tot.capBinds, l.capBinds)
		atomic.AddInt64(&tot.nonPos, l.nonPos)
	})
	r.Add("evaluations", tot.n)
	r.Add("distinct_nontrivial", tot.n)
	r.Add("fpath_cases", tot.n)
	r.Add("cases_where_0.915_cap_binds", tot.capBinds)
	r.Add("cases_with_nonpositive_modified_impact", tot.nonPos)
	if tot.bad > 2 {
		r.Add("violating_cases", tot.bad-2) // only the first two per shard were written out
	}
}

// envEffective enumerates every effective-metric combination x every temporal combination by
// vectors with all Modified metrics defined, on the D-path (real Decode per vector).
func envEffective(r *ev.Run, P props, st *enumStats, everyTemporal bool) {
	o := oracle.GetV3()
	temps := [][3]int{}
	for e := 0; e < 5; e++ {
		for rl := 0; rl < 5; rl++ {
			for rc := 0; rc < 4; rc++ {
				temps = append(temps, [3]int{e, rl, rc})
			}
		}
	}
	// jobs: ver x effective scope x (x index) ; inner: y,z, exploitability 48
	type job struct{ ver, sc, cr, mc int }
	var jobs []job
	for ver := 0; ver < 2; ver++ {
		for sc := 0; sc < 2; sc++ {
			for cr := 0; cr < 4; cr++ {
				for mc := 1; mc < 4; mc++ {
					jobs = append(jobs, job{ver, sc, cr, mc})
				}
			}
		}
	}
	var n, dn int64
	safeParallel(r, len(jobs), func(ji int) {
		j := jobs[ji]
		var ln, ldn int64
		for ir := 0; ir < 4; ir++ {
			for mi := 1; mi < 4; mi++ {
				for ar := 0; ar < 4; ar++ {
					for ma := 1; ma < 4; ma++ {
						for mav := 1; mav < 5; mav++ {
							for mac := 1; mac < 3; mac++ {
								for mpr := 1; mpr < 4; mpr++ {
									for mui := 1; mui < 3; mui++ {
										// base metrics deliberately different from the modified ones
										cs := oracle.V3Case{Ver: j.ver, AV: (mav) % 4, AC: mac % 2, PR: mpr % 3, UI: mui % 2, S: 1 - j.sc, C: j.mc % 3, I: mi % 3, A: ma % 3,
											CR: j.cr, IR: ir, AR: ar, MAV: mav, MAC: mac, MPR: mpr, MUI: mui, MS: j.sc + 1, MC: j.mc, MI: mi, MA: ma}
										s, tok := vecV3(&cs)
										dm, err := v3.NewEnvironmental().Decode(s)
										if err != nil {
											r.Violate(ev.Violation{Kind: "valid-vector-not-decoded", Case: map[string]any{"vector": s}, Observed: err.Error(), Expected: "accepted"})
											continue
										}
										_ = tok
										ldn++
										ts := temps
										if !everyTemporal {
											ts = temps[(ji+ir+mi+ar+ma+mav+mac+mpr+mui)%len(temps):][:1]
										}
										for _, ti := range ts {
											cs.E, cs.RL, cs.RC = ti[0], ti[1], ti[2]
											dm.E, dm.RL, dm.RC = l3E[ti[0]], l3RL[ti[1]], l3RC[ti[2]]
											fail, got, want := fpathCheckV3(dm, &cs, o, P)
											ln++
											if st != nil {
												st.attain(2, int(math.Round(got*10)))
											}
											if fail != "" {
												reportFpathV3(r, cs, got, want, fail)
											}
										}
									}
								}
							}
						}
					}
				}
			}
		}
		atomic.AddInt64(&n, ln)
		atomic.AddInt64(&dn, ldn)
	})
	r.Add("evaluations", n)
	r.Add("distinct_nontrivial", n)
	r.Add("effective_combinations_decoded", dn)
}

// envLattices: (b) the complete impact-side fallback lattice and (c) the complete
// exploitability-side lattice, through the real decoder for every vector.
func envLattices(r *ev.Run, P props, st *enumStats, dpathEvery int) {
	// (b) impact side: ver 2 x (C,I,A) 27 x (MC,MI,MA) 64 x (CR,IR,AR) 64 x S 2 x MS 3 at 6 exploitability settings
	expl := []oracle.V3Case{
		{AV: 0, AC: 0, PR: 0, UI: 0}, {AV: 3, AC: 1, PR: 2, UI: 1, MAV: 1}, {AV: 1, AC: 0, PR: 1, UI: 1, MPR: 3, MUI: 1}, {AV: 2, AC: 1, PR: 2, UI: 0, MAC: 1, MAV: 4},
		// together the settings show every single value of every exploitability-side metric, so that
		// every complete impact-side combination meets each of them at least once
		{AV: 0, AC: 1, PR: 1, UI: 0, MAV: 2, MAC: 2, MPR: 1, MUI: 2}, {AV: 3, AC: 0, PR: 0, UI: 1, MAV: 3, MPR: 2},
	}
	var n, nd int64
	safeParallel(r, 2*27*2, func(k int) {
		ver, s, cia := k%2, (k/2)%2, k/4
		var ln int64
		fobj := newFobj()
		for _, ex := range expl {
			for m := 0; m < 64; m++ {
				for q := 0; q < 64; q++ {
					for ms := 0; ms < 3; ms++ {
						cs := ex
						cs.Ver, cs.S, cs.MS = ver, s, ms
						cs.C, cs.I, cs.A = cia/9, (cia/3)%3, cia%3
						cs.MC, cs.MI, cs.MA = m/16, (m/4)%4, m%4
						cs.CR, cs.IR, cs.AR = q/16, (q/4)%4, q%4
						cs.E, cs.RL, cs.RC = (m+q)%5, (m/5+q)%5, (m+q/3)%4
						hybridV3(r, P, st, &cs, fobj, int(ln)%dpathEvery == 0, &nd)
						ln++
					}
				}
			}
		}
		atomic.AddInt64(&n, ln)
	})
	// (c) exploitability side: AV,MAV,AC,MAC,PR,MPR,UI,MUI,S,MS complete x 2 versions at 13 impact settings
	imp := []oracle.V3Case{
		{C: 0, I: 0, A: 0, CR: 1, IR: 1, AR: 1},        // cap binds
		{C: 0, I: 0, A: 0},                             // high, cap does not bind
		{C: 2, I: 2, A: 2},                             // zero impact
		{C: 2, I: 2, A: 1, AR: 3},                      // tiny impact
		{C: 1, I: 2, A: 2, MC: 3},                      // modified to none
		{C: 2, I: 2, A: 2, MA: 1, AR: 1},               // modified up
		{C: 1, I: 1, A: 1, CR: 3, IR: 3, AR: 3},        // low requirements
		{C: 0, I: 1, A: 2, CR: 1, IR: 2, AR: 3, MI: 1}, // mixed
		{C: 2, I: 1, A: 2, IR: 3},                      // changed-scope polynomial near zero
		{C: 1, I: 1, A: 2, MC: 1, MI: 1, CR: 1, IR: 1}, // cap binds through modified
		{C: 0, I: 2, A: 2, MC: 2, CR: 3},
		{C: 2, I: 0, A: 0, MI: 2, MA: 3, AR: 1},
		{C: 1, I: 0, A: 1, MI: 3, MA: 2, CR: 2, AR: 2}, // with it every single value of every impact-side metric occurs
	}
	safeParallel(r, 2*len(imp)*4, func(k int) {
		ver, ii, av := k%2, (k/2)%len(imp), k/(2*len(imp))
		var ln int64
		fobj := newFobj()
		for mav := 0; mav < 5; mav++ {
			for ac := 0; ac < 2; ac++ {
				for mac := 0; mac < 3; mac++ {
					for pr := 0; pr < 3; pr++ {
						for mpr := 0; mpr < 4; mpr++ {
							for ui := 0; ui < 2; ui++ {
								for mui := 0; mui < 3; mui++ {
									for s := 0; s < 2; s++ {
										for ms := 0; ms < 3; ms++ {
											cs := imp[ii]
											cs.Ver, cs.AV, cs.MAV, cs.AC, cs.MAC, cs.PR, cs.MPR, cs.UI, cs.MUI, cs.S, cs.MS = ver, av, mav, ac, mac, pr, mpr, ui, mui, s, ms
											cs.E, cs.RL, cs.RC = (mav+pr)%5, (mac+mpr)%5, (ui+mui+ms)%4
											hybridV3(r, P, st, &cs, fobj, int(ln)%dpathEvery == 0, &nd)
											ln++
										}
									}
								}
							}
						}
					}
				}
			}
		}
		atomic.AddInt64(&n, ln)
	})
	r.Add("evaluations", n)
	r.Add("distinct_nontrivial", n)
	r.Add("lattice_cases", n)
	r.Add("lattice_vectors_decoded", nd)
}

// newFobj returns an environmental object reached through the real decoder, for field assignment.
func newFobj() *v3.Environmental {
	m, err := v3.NewEnvironmental().Decode("CVSS:3.0/AV:N/AC:L/PR:N/UI:N/S:U/C:H/I:H/A:H/E:X/RL:X/RC:X/CR:X/IR:X/AR:X/MAV:X/MAC:X/MPR:X/MUI:X/MS:X/MC:X/MI:X/MA:X")
	if err != nil {
		return v3.NewEnvironmental()
	}
	return m
}

// hybridV3 evaluates one case either through the real decoder (D-path) or by assigning the
// exported fields of an already decoded object (F-path).
func hybridV3(r *ev.Run, P props, st *enumStats, cs *oracle.V3Case, fobj *v3.Environmental, dpath bool, nd *int64) {
	if dpath {
		atomic.AddInt64(nd, 1)
		dpathV3(r, P, st, cs)
		return
	}
	setV3(fobj, cs)
	fail, got, want := fpathCheckV3(fobj, cs, oracle.GetV3(), P)
	if st != nil {
		st.attain(2, int(math.Round(got*10)))
	}
	if fail != "" {
		reportFpathV3(r, *cs, got, want, fail)
	}
}

// dpathOmit alternates between writing Not Defined metrics as X and omitting them.
var dpathOmit int64

// dpathV3 decodes the vector of the case with the real environmental decoder and applies P.
// Every other call omits the temporal/environmental metrics that are Not Defined instead of
// writing them as X (the two must be indistinguishable).
func dpathV3(r *ev.Run, P props, st *enumStats, cs *oracle.V3Case) {
	s, tok := vecV3(cs)
	if atomic.AddInt64(&dpathOmit, 1)%2 == 0 {
		for _, m := range spec.V3 {
			if m.Level > 0 && tok[m.Name] == "X" {
				delete(tok, m.Name)
			}
		}
		s = canonicalWritten(3, 2, spec.V3Versions[cs.Ver], tok)
	}
	c := &dcase{ver: 3, level: 2, s: s, tok: tok, verLabel: spec.V3Versions[cs.Ver]}
	evalDecoded(r, P, st, c)
}

// fpathEqualsDpath: the soundness premise of the F-path — an object whose exported fields were
// assigned has the same state as the object decoded from the corresponding vector.
func fpathEqualsDpath(r *ev.Run, count int) {
	var n int64
	safeParallel(r, 64, func(k int) {
		base, _ := v3.NewEnvironmental().Decode("CVSS:3.0/AV:N/AC:L/PR:N/UI:N/S:U/C:H/I:H/A:H/E:X/RL:X/RC:X/CR:X/IR:X/AR:X/MAV:X/MAC:X/MPR:X/MUI:X/MS:X/MC:X/MI:X/MA:X")
		if base == nil {
			return
		}
		for q := 0; q < count/64; q++ {
			// a deterministic walk through the product (stride coprime to every radix)
			x := uint64(k)*1000003 + uint64(q)*7919
			nx := func(m int) int { v := int(x % uint64(m)); x /= uint64(m); x = x*31 + 17; return v }
			cs := oracle.V3Case{Ver: nx(2), AV: nx(4), AC: nx(2), PR: nx(3), UI: nx(2), S: nx(2), C: nx(3), I: nx(3), A: nx(3), E: nx(5), RL: nx(5), RC: nx(4),
				CR: nx(4), IR: nx(4), AR: nx(4), MAV: nx(5), MAC: nx(3), MPR: nx(4), MUI: nx(3), MS: nx(3), MC: nx(4), MI: nx(4), MA: nx(4)}
			setV3(base, &cs)
			s, _ := vecV3(&cs)
			dm, err := v3.NewEnvironmental().Decode(s)
			if err != nil {
				r.Violate(ev.Violation{Kind: "valid-vector-not-decoded", Case: map[string]any{"vector": s}, Observed: err.Error(), Expected: "accepted"})
				continue
			}
			a, b := lib.Observe(base), lib.Observe(dm)
			if a != b || math.Float64bits(base.Score()+0) != math.Float64bits(dm.Score()+0) {
				r.Violate(ev.Violation{Kind: "assigned-fields-object-differs-from-decoded", Case: map[string]any{"cvss": 3, "decoder": "environmental", "vector": s, "path": "one decoded object whose exported fields (Ver included) were re-assigned to this vector's values"},
					Observed: a.String(), Expected: b.String() + "  (a fresh decode of the vector)"})
			}
			atomic.AddInt64(&n, 1)
		}
	})
	r.Add("fpath_dpath_equalities_checked", n)
}

func init() {
	register("C03", "exploration", func(r *ev.Run, thorough bool) {
		st := newStats()
		P := noScore
		P.scoreLevel = 2
		r.Phase("base_and_temporal_only_vectors_at_environmental_decoder", func() {
			// no environmental token written at all: every Modified metric falls back to its base metric
			enumV3Base(r, props{scoreLevel: 2}, st)
			enumV3Temporal(r, props{scoreLevel: 2}, st, []int{2}, []map[string]string{{}})
		})
		r.Phase("modified_scope_only_vectors", func() {
			// every base vector x MS in {omitted, X, U, C} with no other environmental metric: the
			// base and temporal scores are queried first (evalDecoded), then the environmental one
			bases := allTok(3, 0)
			var n int64
			safeParallel(r, len(bases), func(i int) {
				for vi, verLabel := range spec.V3Versions {
					for mi, ms := range []string{"", "X", "U", "C"} {
						tok := copyTok(bases[i])
						if ms != "" {
							tok["MS"] = ms
						}
						if (i+vi+mi)%3 == 0 {
							tok["E"], tok["RL"] = "P", "T"
						}
						c := &dcase{ver: 3, level: 2, tok: tok, verLabel: verLabel}
						c.s = canonicalWritten(3, 2, verLabel, tok)
						evalDecoded(r, P, st, c)
						atomic.AddInt64(&n, 1)
					}
				}
			})
			r.Add("evaluations", n)
			r.Add("modified_scope_only_vectors", n)
		})
		r.Phase("token_orders_with_explicit_X", func() {
			G := &gprops{decOn: true, dec: props{scoreLevel: 2}}
			permutationsV3(r, G, &gstats{}, []int{2}, thorough)
		})
		r.Phase("effective_x_temporal", func() { envEffective(r, P, st, true) })
		r.Phase("fallback_lattices", func() {
			if thorough {
				envLattices(r, P, st, 1)
			} else {
				envLattices(r, P, st, 16)
			}
		})
		r.Phase("score sequences", func() { scoreSequences(r, 3, 2) })
		r.Phase("first use in fresh processes", func() { firstUseScores(r, 3, 2); historyVariantsFor(r, 3, 2) })
		exhaustive := false
		if thorough {
			r.Phase("full_product", func() { envFull(r, P, [][3]int{{0, 0, 0}}, 1) })
			r.Phase("fpath_premise", func() { fpathEqualsDpath(r, 2_000_000) })
			exhaustive = true
		} else {
			// every 97th base combination: a thin complete slice of the environmental product
			r.Phase("full_product", func() { envFull(r, P, [][3]int{{2, 4, 3}}, 97) })
			r.Phase("fpath_premise", func() { fpathEqualsDpath(r, 64_000) })
		}
		st.report(r, 3)
		r.Set("oracle_ambiguous_roundings", int64(oracle.GetV3().Ambiguous))
		r.Set("exhaustive", exhaustive)
		r.Set("rule", "(a) every effective combination (2 versions x 2 effective scopes x 12^3 requirement*impact products x 48 exploitability products) x all 100 temporal combinations via vectors with every Modified metric defined and base metrics set to other values, decoded by the real decoder; (b) complete impact-side fallback lattice and (c) complete exploitability-side fallback lattice, each vector through the real decoder; (d) the version x base x 2,211,840 environmental product on the F-path (thorough: all 5,184 base combinations = 11,466,178,560 cases; quick: every 97th base combination); a case is distinct by its metric values; expected values from the exact rational oracle")
		r.Assume("exact oracle: math/big.Rat, FIRST v3.0/v3.1 environmental equations, specification weights transcribed in internal/spec")
		r.Assume("F-path premise (assigning exported fields of a decoded object == decoding the vector) checked on fpath_dpath_equalities_checked vectors by comparing all observers")
		r.Assume("the full 1.1e12 product (x100 temporal) is covered as base/env product at one temporal setting plus effective-metric product at all temporal settings; Score() reads E/RL/RC only in the final multiplication (checked by the effective x temporal product)")
	})
}
