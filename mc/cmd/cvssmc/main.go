// cvssmc: bounded-exhaustive checks of go-cvss, one sub-command per property.
//
//	cvssmc <property-id> quick|thorough
//	cvssmc replay <file>
package main

import (
	"fmt"
	"os"
	"runtime"
	"runtime/debug"
	"runtime/pprof"
	"sort"
	"sync"
	"sync/atomic"

	"cvssmc/internal/ev"
)

type checkFn func(r *ev.Run, thorough bool)

type checkDef struct {
	level string
	fn    checkFn
}

var checks = map[string]checkDef{}

func register(id, level string, fn checkFn) { checks[id] = checkDef{level, fn} }

func main() {
	if len(os.Args) < 3 {
		ids := []string{}
		for k := range checks {
			ids = append(ids, k)
		}
		sort.Strings(ids)
		fmt.Println("usage: cvssmc <id> quick|thorough | cvssmc replay <file>; ids:", ids)
		os.Exit(2)
	}
	if os.Args[1] == "fresh" {
		freshMain(os.Args[2:])
		return
	}
	if os.Args[1] == "hist-worker" {
		histWorkerMain(os.Args[2:])
		return
	}
	if os.Args[1] == "hist-entry" {
		histEntryMain(os.Args[2:])
		return
	}
	if os.Args[1] == "replay" {
		os.Exit(replay(os.Args[2]))
	}
	if os.Args[1] == "crashed" && len(os.Args) >= 5 {
		os.Exit(crashed(os.Args[2], os.Args[3], os.Args[4]))
	}
	id, tier := os.Args[1], os.Args[2]
	def, ok := checks[id]
	if !ok || (tier != "quick" && tier != "thorough") {
		fmt.Println("unknown check or tier:", id, tier)
		os.Exit(2)
	}
	if pf := os.Getenv("VERIF_CPUPROFILE"); pf != "" {
		f, _ := os.Create(pf)
		_ = pprof.StartCPUProfile(f)
		defer pprof.StopCPUProfile()
	}
	debug.SetMemoryLimit(10 << 30)
	debug.SetGCPercent(600) // the enumerations allocate short-lived garbage; memory is plentiful
	r := ev.New(id, tier, def.level)
	code := func() (code int) {
		defer func() {
			if x := recover(); x != nil {
				// a panic escaping the harness itself is an infrastructure error
				buf := make([]byte, 1<<14)
				n := runtime.Stack(buf, false)
				r.Infra(fmt.Sprintf("harness panic: %v\n%s", x, buf[:n]))
			}
		}()
		def.fn(r, tier == "thorough")
		if n := atomic.LoadInt64(&heavyCases); n > 0 {
			r.Set("objects_queried_4200_more_times", n)
		}
		return 0
	}()
	_ = code
	pprof.StopCPUProfile()
	os.Exit(r.Finish())
}

// crashed is called by ./check when the run of a check died of a Go runtime fatal error that no
// recover() can catch ("fatal error: concurrent map writes" and its relatives) raised inside the
// library.  The harness decodes, scores and reports from 16 goroutines, each on its own objects —
// the use C16 promises to be safe; the library tearing the process down under it is a violation,
// reported by whichever check happened to be running.  The trace is the artefact.
func crashed(id, tier, traceFile string) int {
	def, ok := checks[id]
	if !ok {
		return 2
	}
	b, err := os.ReadFile(traceFile)
	if err != nil {
		return 2
	}
	trace := string(b)
	if len(trace) > 6000 {
		trace = trace[:6000]
	}
	r := ev.New(id, tier, def.level)
	r.Violate(ev.Violation{Kind: "library-crashes-under-concurrent-use", Case: map[string]any{"driver": "the worker pool of this check: 16 goroutines, each decoding, scoring and reporting on objects of its own"},
		Observed: trace, Expected: "no Go runtime fatal error inside the library (concurrent decoding into separate objects and concurrent queries are safe, C16)"})
	r.Set("exhaustive", false)
	r.Set("rule", "the run was cut short by a runtime fatal error inside the library; nothing else was judged")
	return r.Finish()
}

// parallel runs fn(i) for i in [0,n) on all cores.
func parallel(n int, fn func(i int)) {
	w := runtime.NumCPU()
	if w > n {
		w = n
	}
	var wg sync.WaitGroup
	ch := make(chan int, n)
	for i := 0; i < n; i++ {
		ch <- i
	}
	close(ch)
	for k := 0; k < w; k++ {
		wg.Add(1)
		go func() {
			defer wg.Done()
			for i := range ch {
				fn(i)
			}
		}()
	}
	wg.Wait()
}
