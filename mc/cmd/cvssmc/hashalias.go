package main

// Hash aliases (round 6).  Five independent seeded changes of round 6 replaced a comparison of
// metric names or value codes by a comparison of 32-bit hashes (a switch on FNV-1a of the name, a
// seen-set keyed by the hash, a reverse index keyed by the hash) and never compared the text
// again: every string that collides with a real name or code is then taken for it.  Such strings
// are far outside every edit ball and name sweep (the shortest upper-case aliases have seven
// letters).  The anticipated shortcut is "dispatch by a well-known 32-bit string hash", so one
// input per shortcut: for every metric name and every value code of both versions, and for every
// common 32-bit string hash whose step is invertible (FNV-1a, FNV-1, CRC-32 IEEE and Castagnoli,
// the multiplicative hashes h*M+c and h*M^c for M = 31, 33, 131, 65599), colliding strings over
// three alphabets are computed by meet in the middle at check time and offered as names and codes.

import (
	"fmt"
	"hash/crc32"
	"sort"
	"strings"
	"sync"

	"cvssmc/internal/ev"
	"cvssmc/internal/lib"
	"cvssmc/internal/spec"
)

type strHash struct {
	name string
	init uint32
	step func(h uint32, c byte) uint32 // forward
	back func(h uint32, c byte) uint32 // inverse of step in h
	fin  func(h uint32) uint32         // finalisation (an involution or identity)
}

func inv32(m uint32) uint32 { // multiplicative inverse of an odd m modulo 2^32
	x := m
	for i := 0; i < 5; i++ {
		x *= 2 - m*x
	}
	return x
}

func crcHash(name string, poly uint32) strHash {
	tab := crc32.MakeTable(poly)
	var top [256]byte // index whose table entry has this top byte
	for i := 0; i < 256; i++ {
		top[tab[i]>>24] = byte(i)
	}
	return strHash{name: name, init: 0xffffffff,
		step: func(h uint32, c byte) uint32 { return tab[byte(h)^c] ^ (h >> 8) },
		back: func(h uint32, c byte) uint32 {
			i := top[h>>24]
			return ((h ^ tab[i]) << 8) | uint32(i^c)
		},
		fin: func(h uint32) uint32 { return ^h }}
}

func mulHash(name string, init, m uint32, xor bool) strHash {
	mi := inv32(m)
	id := func(h uint32) uint32 { return h }
	if xor {
		return strHash{name, init, func(h uint32, c byte) uint32 { return h*m ^ uint32(c) }, func(h uint32, c byte) uint32 { return (h ^ uint32(c)) * mi }, id}
	}
	return strHash{name, init, func(h uint32, c byte) uint32 { return h*m + uint32(c) }, func(h uint32, c byte) uint32 { return (h - uint32(c)) * mi }, id}
}

func strHashes() []strHash {
	const p = 16777619
	pi := inv32(p)
	id := func(h uint32) uint32 { return h }
	return []strHash{
		{"fnv1a-32", 2166136261, func(h uint32, c byte) uint32 { return (h ^ uint32(c)) * p }, func(h uint32, c byte) uint32 { return h*pi ^ uint32(c) }, id},
		{"fnv1-32", 2166136261, func(h uint32, c byte) uint32 { return h*p ^ uint32(c) }, func(h uint32, c byte) uint32 { return (h ^ uint32(c)) * pi }, id},
		crcHash("crc32-ieee", crc32.IEEE),
		crcHash("crc32-castagnoli", crc32.Castagnoli),
		mulHash("h*31+c", 0, 31, false),
		mulHash("djb2 h*33+c", 5381, 33, false),
		mulHash("djb2a h*33^c", 5381, 33, true),
		mulHash("h*131+c", 0, 131, false),
		mulHash("sdbm h*65599+c", 0, 65599, false),
		mulHash("h*31+c from 17", 17, 31, false),
		mulHash("h*16777619+c", 0, p, false),
	}
}

func (sh strHash) sum(s string) uint32 {
	h := sh.init
	for i := 0; i < len(s); i++ {
		h = sh.step(h, s[i])
	}
	return sh.fin(h)
}

type aliasAlphabet struct {
	name   string
	sigma  string
	na, nb int // prefix and suffix lengths of the meet in the middle
}

var aliasAlphabets = []aliasAlphabet{
	{"upper-case letters", "ABCDEFGHIJKLMNOPQRSTUVWXYZ", 4, 4},
	{"lower-case letters", "abcdefghijklmnopqrstuvwxyz", 4, 4},
	{"letters and digits", "ABCDEFGHIJKLMNOPQRSTUVWXYZabcdefghijklmnopqrstuvwxyz0123456789", 3, 3},
}

type hashAlias struct {
	target, alias, hash, alphabet string
}

var (
	aliasOnce sync.Once
	aliasAll  []hashAlias
)

func eachString(sigma string, n int, fn func(b []byte)) {
	b := make([]byte, n)
	var rec func(i int)
	rec = func(i int) {
		if i == n {
			fn(b)
			return
		}
		for k := 0; k < len(sigma); k++ {
			b[i] = sigma[k]
			rec(i + 1)
		}
	}
	rec(0)
}

// hashAliases computes, for every target (metric names and value codes of both versions), every
// hash and every alphabet, up to two strings that collide with the target.
func hashAliases() []hashAlias {
	aliasOnce.Do(func() {
		tset := map[string]bool{}
		for _, ver := range []int{3, 2} {
			for _, m := range spec.Metrics(ver) {
				tset[m.Name] = true
				for _, c := range m.Codes {
					tset[c.Code] = true
				}
			}
		}
		tset["3.0"], tset["3.1"], tset["CVSS"] = true, true, true
		var targets []string
		for t := range tset {
			targets = append(targets, t)
		}
		sort.Strings(targets)
		type job struct {
			sh strHash
			al aliasAlphabet
		}
		var jobs []job
		for _, sh := range strHashes() {
			for _, al := range aliasAlphabets {
				jobs = append(jobs, job{sh, al})
			}
		}
		res := make([][]hashAlias, len(jobs))
		var wg sync.WaitGroup
		sem := make(chan struct{}, 16)
		for ji := range jobs {
			ji := ji
			wg.Add(1)
			sem <- struct{}{}
			go func() {
				defer func() { <-sem; wg.Done() }()
				sh, al := jobs[ji].sh, jobs[ji].al
				// forward table: state after every prefix
				fwd := make(map[uint32]string, 1<<19)
				eachString(al.sigma, al.na, func(b []byte) {
					h := sh.init
					for _, c := range b {
						h = sh.step(h, c)
					}
					if _, dup := fwd[h]; !dup {
						fwd[h] = string(b)
					}
				})
				for _, t := range targets {
					want := sh.fin(sh.sum(t)) // state before finalisation (fin is an involution)
					found := 0
					eachString(al.sigma, al.nb, func(b []byte) {
						if found >= 2 {
							return
						}
						h := want
						for i := len(b) - 1; i >= 0; i-- {
							h = sh.back(h, b[i])
						}
						if p, ok := fwd[h]; ok {
							s := p + string(b)
							if s != t && sh.sum(s) == sh.sum(t) {
								res[ji] = append(res[ji], hashAlias{t, s, sh.name, al.name})
								found++
							}
						}
					})
				}
			}()
		}
		wg.Wait()
		for _, r := range res {
			aliasAll = append(aliasAll, r...)
		}
	})
	return aliasAll
}

// aliasesOf returns the aliases of one target text.
func aliasesOf(target string) []hashAlias {
	var out []hashAlias
	for _, a := range hashAliases() {
		if a.target == target {
			out = append(out, a)
		}
	}
	return out
}

// hashAliasInputs: every alias of a metric name in place of that name and appended as a further
// token; every alias of a value code in place of the code; aliases of the version labels.
func hashAliasInputs(r *ev.Run, G *gprops, gs *gstats, vers []int) {
	var n int64
	run := func(ver int, s string) {
		for lv := 0; lv < 3; lv++ {
			judge(r, G, gs, ver, lv, s)
		}
		n++
	}
	for _, ver := range vers {
		full := seeds(ver)[len(seeds(ver))-1]
		if ver == 3 {
			full = seeds(3)[2]
		}
		baseOnly := seeds(ver)[0]
		for _, seed := range []string{full, baseOnly} {
			toks := strings.Split(seed, "/")
			for i, tk := range toks {
				c := strings.IndexByte(tk, ':')
				if c < 0 {
					continue
				}
				name, val := tk[:c], tk[c+1:]
				if ver == 3 && i == 0 {
					for _, a := range aliasesOf(val) { // version label
						run(ver, "CVSS:"+a.alias+seed[len(tk):])
					}
					for _, a := range aliasesOf("CVSS") {
						run(ver, a.alias+":"+val+seed[len(tk):])
					}
					continue
				}
				for _, a := range aliasesOf(name) {
					repl := append(append([]string{}, toks[:i]...), a.alias+":"+val)
					repl = append(repl, toks[i+1:]...)
					run(ver, strings.Join(repl, "/"))  // the alias instead of the metric
					run(ver, seed+"/"+a.alias+":"+val) // the alias besides the metric
				}
				for _, a := range aliasesOf(val) {
					repl := append(append([]string{}, toks[:i]...), name+":"+a.alias)
					repl = append(repl, toks[i+1:]...)
					run(ver, strings.Join(repl, "/"))
				}
			}
		}
		// names of the levels the base-only seed does not show, appended to it
		for _, m := range spec.Metrics(ver) {
			if strings.Contains(baseOnly, "/"+m.Name+":") || strings.HasPrefix(baseOnly, m.Name+":") {
				continue
			}
			for _, a := range aliasesOf(m.Name) {
				run(ver, baseOnly+"/"+a.alias+":"+m.Codes[0].Code)
			}
		}
	}
	r.Add("hash_alias_inputs", n)
	r.Set("hash_aliases", len(hashAliases()))
	r.Set("hash_alias_rule", fmt.Sprintf("%d hash functions x %d alphabets, meet in the middle", len(strHashes()), len(aliasAlphabets)))
}

// hashAliasCodes returns the aliases of the codes of one enum as candidate codes.
func hashAliasCodes(en *lib.Enum) []string {
	var out []string
	for _, c := range en.Codes {
		for _, a := range aliasesOf(c.Code) {
			out = append(out, a.alias)
		}
	}
	return out
}
