package main

import (
	"encoding/json"
	"fmt"
	"os"

	"cvssmc/internal/ev"
)

// replay re-runs exactly the case of a violation artefact where the case is a single input
// string; for the engines whose cases are histories, tables or templates (all of which run in a
// few seconds) it re-runs the whole check of that property.
func replay(path string) int {
	b, err := os.ReadFile(path)
	if err != nil {
		fmt.Println(err)
		return 2
	}
	var doc struct {
		Property  string       `json:"property_id"`
		Tier      string       `json:"tier"`
		Violation ev.Violation `json:"violation"`
	}
	if err := json.Unmarshal(b, &doc); err != nil {
		fmt.Println(err)
		return 2
	}
	os.Setenv("VERIF_OUT", os.TempDir()+"/verif-replay") // do not overwrite evidence or artefacts
	c := doc.Violation.Case
	vec, hasVec := c["vector"].(string)
	dec, hasDec := c["decoder"].(string)
	ver, hasVer := c["cvss"].(float64)
	if hasVec && hasDec && hasVer {
		level := map[string]int{"base": 0, "temporal": 1, "environmental": 2}[dec]
		r := ev.New(doc.Property, "quick", "exploration")
		G := &gprops{accept: true, classify: true, total: true, order: false, decOn: true,
			dec: props{scoreLevel: -1, grid: true, neutral: true, views: true, fields: true, encode: true}}
		gs := &gstats{}
		judge(r, G, gs, int(ver), level, vec)
		for lv := 0; lv <= level; lv++ {
			G2 := &gprops{decOn: true, dec: props{scoreLevel: lv}}
			judge(r, G2, gs, int(ver), level, vec)
		}
		fmt.Printf("replayed %q at the v%d %s decoder with every oracle\n", vec, int(ver), dec)
		code := r.Finish()
		if code == 1 {
			fmt.Println("REPRODUCED")
		} else {
			fmt.Println("not reproduced")
		}
		return code
	}
	def, ok := checks[doc.Property]
	if !ok {
		fmt.Println("cannot replay: unknown property", doc.Property)
		return 2
	}
	fmt.Printf("the case of this artefact is not a single input string; re-running the whole %s check (%s)\n", doc.Property, doc.Tier)
	r := ev.New(doc.Property, "quick", def.level)
	def.fn(r, false)
	return r.Finish()
}
