package main

import "fmt"

func replay(path string) int { fmt.Println("replay not implemented yet:", path); return 2 }
