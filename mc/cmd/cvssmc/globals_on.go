//go:build verifdump

package main

import (
	"sort"
	"strings"

	"cvssmc/internal/dump"

	_ "github.com/goark/go-cvss/cvsserr"
	_ "github.com/goark/go-cvss/v2/metric"
	_ "github.com/goark/go-cvss/v3/metric"
	_ "github.com/goark/go-cvss/v3/report"
	_ "github.com/goark/go-cvss/v3/report/names"
	_ "github.com/goark/go-cvss/v3/version"
	"github.com/goark/go-cvss/verifreg"
)

// haveGlobals: this binary was built with the generated VerifGlobals() functions (-overlay).
const haveGlobals = true

func globalSets() map[string]map[string]any {
	// every library package linked into this binary registers itself (generated files)
	return verifreg.All()
}

// globalsDump renders every package-level variable of the library (content, never addresses).
func globalsDump() string {
	var parts []string
	for p, m := range globalSets() {
		for n, ptr := range m {
			parts = append(parts, p+"."+n+"="+dump.Of(ptr))
		}
	}
	sort.Strings(parts)
	return strings.Join(parts, "\n")
}

func globalsCount() int {
	n := 0
	for _, m := range globalSets() {
		n += len(m)
	}
	return n
}
