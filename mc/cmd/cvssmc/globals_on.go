//go:build verifdump

package main

import (
	"sort"
	"strings"

	"cvssmc/internal/dump"

	"github.com/goark/go-cvss/cvsserr"
	v2 "github.com/goark/go-cvss/v2/metric"
	v3 "github.com/goark/go-cvss/v3/metric"
	"github.com/goark/go-cvss/v3/report"
	"github.com/goark/go-cvss/v3/report/names"
	v3version "github.com/goark/go-cvss/v3/version"
)

// haveGlobals: this binary was built with the generated VerifGlobals() functions (-overlay).
const haveGlobals = true

func globalSets() map[string]map[string]any {
	return map[string]map[string]any{
		"cvsserr": cvsserr.VerifGlobals(), "v2/metric": v2.VerifGlobals(), "v3/metric": v3.VerifGlobals(),
		"v3/report": report.VerifGlobals(), "v3/report/names": names.VerifGlobals(), "v3/version": v3version.VerifGlobals(),
	}
}

// globalsDump renders every package-level variable of the library (content, never addresses).
func globalsDump() string {
	var parts []string
	for p, m := range globalSets() {
		for n, ptr := range m {
			parts = append(parts, p+"."+n+"="+dump.Of(ptr))
		}
	}
	sort.Strings(parts)
	return strings.Join(parts, "\n")
}

func globalsCount() int {
	n := 0
	for _, m := range globalSets() {
		n += len(m)
	}
	return n
}
