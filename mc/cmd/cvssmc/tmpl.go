package main

// C19 / TMPL engine (DESIGN.md §5.5): all template programs up to a size over a small grammar,
// executed by the library's ExportWith[String] and by Go's text/template as the reference, on
// reports of all levels and languages; all reader behaviours and failure positions.

import (
	"bufio"
	"bytes"
	"context"
	"errors"
	"fmt"
	"io"
	"net"
	"os"
	"strings"
	"sync/atomic"
	"syscall"
	"testing/iotest"
	"text/template"
	"time"

	"cvssmc/internal/ev"
	"cvssmc/internal/lib"

	"github.com/goark/go-cvss/cvsserr"
	v3 "github.com/goark/go-cvss/v3/metric"
	"github.com/goark/go-cvss/v3/report"
	"golang.org/x/text/language"
)

var tmplAtoms = []string{
	"x", " \n", "}}", "日本", "\ufeff", "\r\n\x00",
	"{{.Vector}}", "{{.BaseScore}}", "{{.SeverityValue}}", "{{.AVValue}}", "{{.Version}}",
	"{{.TemporalReport.Vector}}", "{{.BaseReport.SeverityValue}}", "{{.BaseReport.Vector}}", "{{.TemporalScore}}", "{{.EnvironmentalScore}}", "{{.MAVName}}", "{{.EValue}}",
	"{{.Nope}}", "{{nope .Vector}}", "{{.BaseScore | printf \"%5s\"}}", "{{len .Vector}}", "{{.Vector.X}}",
	"{{if .Vector}}", "{{if .Nope}}", "{{else}}", "{{end}}", "{{with .BaseReport}}", "{{with .TemporalReport}}", "{{range .Vector}}",
	"{{/* c */}}", "{{- .Version -}}", "{{", "{{template \"t\"}}", "{{define \"t\"}}T{{end}}", "{{$v := .Vector}}{{$v}}",
	// markup contexts: a template engine that escapes by context (html/template) renders these differently
	"<a href=\"{{.Vector}}\">", "<script>var s = {{.BaseScore}}; var n = \"{{.AVValue}}\";</script>", "<p title='{{.SeverityValue}}' onclick=\"f({{.Version}})\">&amp;<",
}

// tmplPrograms: larger programs than the atom sequences reach (recursion that terminates, nested
// definitions, blocks, variables, comparisons, range with else, pipelines with several stages,
// whitespace trimming), valid and invalid ones.  The oracle is the same: text/template.
var tmplPrograms = []string{
	`{{define "rev"}}{{if .}}{{template "rev" (slice . 1)}}{{slice . 0 1}}{{end}}{{end}}{{template "rev" .Version}}`,
	`{{define "a"}}[{{template "b" .}}]{{end}}{{define "b"}}({{.Vector}}){{end}}{{template "a" .}}{{template "b" .}}`,
	`{{define "loop"}}{{template "loop" .}}{{end}}{{template "loop" .}}`,
	`{{define "g"}}{{if eq . "x"}}{{else}}{{template "g" "x"}}y{{end}}{{end}}{{template "g" .Version}}`,
	`{{block "title" .}}default {{.Version}}{{end}} {{define "title"}}never{{end}}`,
	`{{block "t" .}}{{.Vector}}{{end}}{{block "t" .}}twice{{end}}`,
	`{{$a := .Vector}}{{$b := len $a}}{{if gt $b 10}}{{$a}} is long ({{$b}}){{else}}short{{end}}`,
	`{{with $x := .BaseScore}}{{$x}}{{else}}none{{end}}{{with .Nope}}x{{end}}`,
	`{{range $i, $c := .Version}}{{$i}}={{$c}};{{else}}empty{{end}}`,
	`{{range .Version}}{{.}}{{break}}{{end}}|{{range .Version}}{{continue}}{{.}}{{end}}`,
	`{{.Vector | printf "%q" | len | printf "%05d"}} {{printf "%s/%s" .Version .BaseScore | html}} {{.Vector | urlquery}} {{js .Vector}}`,
	`{{if and .Vector (not .Nope)}}a{{else if or .Version .Vector}}b{{else}}c{{end}}`,
	`{{if and .Vector .BaseScore}}{{if eq .Version "3.1" "3.0"}}v3{{end}}{{end}} {{index .Version 0}} {{slice .Vector 0 8}}`,
	`{{ .Version -}}   {{- /* trimmed */ -}}   {{- .BaseScore }}|{{"a" -}} b {{- "c"}}`,
	`{{with .BaseReport}}{{with .BaseReport}}{{.Vector}}{{end}}{{end}}`,
	`{{with .TemporalReport}}{{.BaseReport.Vector}}|{{.Vector}}|{{.SeverityValue}}{{end}}`,
	`{{template "missing" .}}`,
	`{{define "x"}}1{{end}}{{define "x"}}2{{end}}{{template "x"}}`,
	`{{define "args"}}{{.}}{{end}}{{template "args" .BaseScore}}{{template "args"}}{{template "args" 7}}`,
	`{{index .Vector 1000}}`, `{{slice .Vector 5 2}}`, `{{call .Vector}}`, `{{.Vector.Nope.Deeper}}`, `{{printf "%d" .Vector}}`, `{{len 3}}`,
	`{{if}}x{{end}}`, `{{range}}`, `{{end}}`, `{{else}}`, `{{define "u"}}`, `{{template}}`, `{{$x}}`, `{{.Vector | }}`, `{{"unterminated}}`,
	`<table>{{range $k, $v := .Version}}<tr><td>{{$k}}</td><td title="{{$v}}">{{$v}}</td></tr>{{end}}</table><a href="?v={{.Vector}}&s={{.BaseScore}}">{{.SeverityName}}</a>`,
	`<script>var r = {"vector": "{{.Vector}}", "score": {{.BaseScore}}, "sev": '{{.SeverityValue}}'};</script><style>p { content: "{{.Version}}" }</style>`,
	`| {{.AVName}} | {{.AVValue}} |\n|---|---|\n{{/* markdown */}}**{{.SeverityName}}**: _{{.SeverityValue}}_ ({{.BaseScore}})`,
	// characters that look like blanks inside an action: text/template allows space, tab, CR and LF
	// only (round 7, C19-B-r7: a fast path whose regular expression \\s also takes a form feed)
	"{{\f.Version}}", "{{.Version\f}}", "{{ .SeverityValue\f}}", "{{\v.Version}}", "{{.Version\v}}", "{{\u00a0.Version}}", "{{.Version\u00a0}}", "{{\u2028.Version}}", "{{\u3000.BaseScore}}",
	"{{\x00.Version}}", "{{.Version\x00}}", "{{\ufeff.Version}}", "{{\u0085.Version}}", "{{\u200b.Version}}", "{{\r\n.Version\r\n}}", "{{\t.Version\t}}", "{{ \f }}", "{{.Version}}\f{{.BaseScore}}",
	"{{if\f.Vector}}x{{end}}", "{{.BaseScore\f| printf \"%s\"}}", "{{ .Vector\f}} {{ .BaseScore }}", "{{.Vector}}{{\f.BaseScore}}{{.Version}}",
	// method calls on the report: an export nested in an export (round 6, C19-A-r6: a lock held
	// across template execution), with valid, failing and recursive inner templates
	"{{.ExportWithString \"inner {{.Vector}}\"}}",
	"{{with .ExportWithString \"S={{.BaseScore}}\"}}[{{.}}]{{end}} {{.Version}}",
	"{{.ExportWithString \"{{\"}}", "{{.ExportWithString \"{{.Nope}}\"}}tail",
	"{{.ExportWithString (printf \"%s {{.Version}}\" .Vector)}}",
	"{{.ExportWithString \"a{{.ExportWithString \\\"b{{.Version}}\\\"}}c\"}}",
	"{{.ExportWith nil}}", "{{.ExportWithString}}", "{{.ExportWithString 1}}",
}

type exporter interface {
	ExportWith(io.Reader) (io.Reader, error)
	ExportWithString(string) (io.Reader, error)
}

type tmplTarget struct {
	name string
	rep  exporter
	data any
}

func tmplTargets() ([]tmplTarget, error) {
	vec := "CVSS:3.1/AV:A/AC:H/PR:L/UI:N/S:C/C:L/I:H/A:L/E:P/RL:O/RC:U/CR:L/IR:M/AR:L/MAV:P/MAC:L/MPR:L/MUI:R/MS:C/MC:H/MI:H/MA:N"
	em, err := v3.NewEnvironmental().Decode(vec)
	if err != nil {
		return nil, err
	}
	var ts []tmplTarget
	for _, l := range []language.Tag{language.English, language.Japanese} {
		o := report.WithOptionsLanguage(l)
		b, t, e := report.NewBase(em.BaseMetrics(), o), report.NewTemporal(em.TemporalMetrics(), o), report.NewEnvironmental(em, o)
		ts = append(ts, tmplTarget{"base/" + l.String(), b, b}, tmplTarget{"temporal/" + l.String(), t, t}, tmplTarget{"environmental/" + l.String(), e, e})
	}
	return ts, nil
}

// reference executes the template with Go's text/template on the same data.
func reference(data any, text string) (out string, stage string) {
	t, err := template.New("ref").Parse(text)
	if err != nil {
		return "", "parse"
	}
	var buf bytes.Buffer
	if err := t.Execute(&buf, data); err != nil {
		return "", "execute"
	}
	return buf.String(), ""
}

func readAll(r io.Reader) (s string, err error, pan string) {
	defer func() {
		if x := recover(); x != nil {
			pan = fmt.Sprint(x)
		}
	}()
	b, err := io.ReadAll(r)
	return string(b), err, ""
}

func isNilReader(r io.Reader) bool {
	if r == nil {
		return true
	}
	return lib.IsNil(r)
}

var exportHung int32

type tmplStats struct {
	n, okRef, parseFail, execFail int64
}

// checkExport compares one library export with the reference.
func checkExport(r *ev.Run, st *tmplStats, tg tmplTarget, text string, via string, call func() (io.Reader, error)) {
	want, stage := reference(tg.data, text)
	atomic.AddInt64(&st.n, 1)
	switch stage {
	case "":
		atomic.AddInt64(&st.okRef, 1)
	case "parse":
		atomic.AddInt64(&st.parseFail, 1)
	default:
		atomic.AddInt64(&st.execFail, 1)
	}
	cs := map[string]any{"report": tg.name, "template": text, "via": via}
	var rd io.Reader
	var err error
	if atomic.LoadInt32(&exportHung) != 0 {
		return // an earlier export never returned: whatever it holds is held for good
	}
	run := func() (p string) {
		defer func() {
			if x := recover(); x != nil {
				p = fmt.Sprint(x)
			}
		}()
		rd, err = call()
		return ""
	}
	pan := ""
	if strings.Contains(text, "Export") {
		// a template that calls an export method of the report it is executed over re-enters the
		// export path on the same goroutine; text/template renders it, so the library must too.
		// A call that has not returned after five minutes (it takes microseconds) never will.
		done := make(chan string, 1)
		go func() { done <- run() }()
		select {
		case pan = <-done:
		case <-time.After(5 * time.Minute):
			atomic.StoreInt32(&exportHung, 1)
			r.Violate(ev.Violation{Kind: "export-does-not-return", Case: cs, Observed: "the export call had not returned after 5 minutes (a lock that is not re-entrant, held across template execution?)", Expected: fmt.Sprintf("%q (what text/template renders for the same template over the same report)", want),
				GoTest: fmt.Sprintf("r, err := rep.ExportWithString(%q) // rep: %s report; never returns", text, tg.name)})
			return
		}
	} else {
		pan = run()
	}
	if pan != "" {
		r.Violate(ev.Violation{Kind: "export-panics", Case: cs, Observed: pan, Expected: "an error or a reader"})
		return
	}
	if stage == "" {
		if err != nil || isNilReader(rd) {
			r.Violate(ev.Violation{Kind: "export-fails-on-valid-template", Case: cs, Observed: fmt.Sprintf("err=%v reader-nil=%v", err, isNilReader(rd)), Expected: fmt.Sprintf("%q", want)})
			return
		}
		got, rerr, rp := readAll(rd)
		if rerr != nil || rp != "" || got != want {
			r.Violate(ev.Violation{Kind: "export-output", Case: cs, Observed: fmt.Sprintf("%q err=%v panic=%q", got, rerr, rp), Expected: fmt.Sprintf("%q", want),
				GoTest: fmt.Sprintf("r, err := rep.ExportWithString(%q) // rep: %s report; compare with text/template on the same value", text, tg.name)})
		}
		return
	}
	if err == nil || !errors.Is(err, cvsserr.ErrInvalidTemplate) {
		r.Violate(ev.Violation{Kind: "template-failure-not-reported", Case: with(cs, "reference_fails_at", stage), Observed: fmt.Sprintf("err=%v (%s)", err, lib.Class(err)), Expected: "an error matching ErrInvalidTemplate"})
	}
	if !isNilReader(rd) {
		got, _, _ := readAll(rd)
		r.Violate(ev.Violation{Kind: "partial-output", Case: with(cs, "reference_fails_at", stage), Observed: fmt.Sprintf("a reader holding %q", got), Expected: "no output"})
	}
}

// ---------------------------------------------------------------------------------------------
// readers

type oneByte struct{ s string }

func (o *oneByte) Read(p []byte) (int, error) {
	if len(o.s) == 0 {
		return 0, io.EOF
	}
	if len(p) == 0 {
		return 0, nil
	}
	p[0] = o.s[0]
	o.s = o.s[1:]
	return 1, nil
}

type dataWithEOF struct {
	s    string
	done bool
}

func (d *dataWithEOF) Read(p []byte) (int, error) {
	if d.done {
		return 0, io.EOF
	}
	n := copy(p, d.s)
	d.s = d.s[n:]
	if len(d.s) == 0 {
		d.done = true
		return n, io.EOF
	}
	return n, nil
}

type zeroThenData struct {
	s     string
	zeros int
}

func (z *zeroThenData) Read(p []byte) (int, error) {
	if z.zeros > 0 {
		z.zeros--
		return 0, nil
	}
	if len(z.s) == 0 {
		return 0, io.EOF
	}
	n := copy(p, z.s)
	z.s = z.s[n:]
	return n, nil
}

type failAfter struct {
	s   string
	k   int
	err error
}

var errInjected = errors.New("injected read failure")

// tempErr: an error value in the style of net.Error / syscall.Errno whose Temporary() and
// Timeout() report true (round 7, C19-A-r7: reads that fail with a "temporary" error are retried)
type tempErr struct{ msg string }

func (e tempErr) Error() string   { return e.msg }
func (e tempErr) Temporary() bool { return true }
func (e tempErr) Timeout() bool   { return true }

// failOnce delivers s but fails exactly once, after k bytes, with err (no data in that call), and
// would deliver the rest if it were asked again.  A Read error other than io.EOF is a failure of
// the reader; a caller that asks again and carries on exports a template the reader never
// delivered cleanly.
type failOnce struct {
	s      string
	k      int
	err    error
	failed bool
}

func (f *failOnce) Read(p []byte) (int, error) {
	if !f.failed && f.k == 0 {
		f.failed = true
		return 0, f.err
	}
	if len(f.s) == 0 {
		return 0, io.EOF
	}
	n := len(p)
	if !f.failed && n > f.k {
		n = f.k
	}
	if n > len(f.s) {
		n = len(f.s)
	}
	copy(p, f.s[:n])
	f.s = f.s[n:]
	if !f.failed {
		f.k -= n
	}
	return n, nil
}

// the error values a failing reader may return: anything but a bare io.EOF is a failure
var readErrors = []error{errInjected, io.ErrUnexpectedEOF, io.ErrClosedPipe, io.ErrNoProgress, io.ErrShortBuffer, os.ErrClosed, os.ErrDeadlineExceeded, context.Canceled,
	fmt.Errorf("wrapped: %w", io.EOF), &os.PathError{Op: "read", Path: "t", Err: errors.New("input/output error")},
	syscall.EINTR, syscall.EAGAIN, tempErr{"temporary failure"}, &os.PathError{Op: "read", Path: "t", Err: syscall.EINTR}, &net.OpError{Op: "read", Net: "tcp", Err: tempErr{"i/o timeout"}}}

func (f *failAfter) Read(p []byte) (int, error) {
	if f.err == nil {
		f.err = errInjected
	}
	if f.k == 0 {
		return 0, f.err
	}
	n := len(p)
	if n > f.k {
		n = f.k
	}
	if n > len(f.s) {
		n = len(f.s)
	}
	copy(p, f.s[:n])
	f.s, f.k = f.s[n:], f.k-n
	if f.k == 0 {
		return n, f.err // data together with the error
	}
	return n, nil
}

func init() {
	register("C19", "fault_enumeration", func(r *ev.Run, thorough bool) {
		tgs, err := tmplTargets()
		if err != nil {
			r.Violate(ev.Violation{Kind: "valid-vector-not-decoded", Case: map[string]any{}, Observed: err.Error(), Expected: "accepted"})
			return
		}
		maxAtoms := 3
		if thorough {
			maxAtoms = 4
		}
		st := &tmplStats{}
		var templates int64
		na := len(tmplAtoms)
		// all sequences of <= maxAtoms atoms, sharded by the first two atoms
		r.Phase("template programs", func() {
			safeParallel(r, na*na, func(k int) {
				a, b := k/na, k%na
				var rec func(text string, depth int)
				rec = func(text string, depth int) {
					atomic.AddInt64(&templates, 1)
					for _, tg := range tgs {
						tg := tg
						checkExport(r, st, tg, text, "ExportWithString", func() (io.Reader, error) { return tg.rep.ExportWithString(text) })
					}
					if depth == maxAtoms {
						return
					}
					for _, at := range tmplAtoms {
						rec(text+at, depth+1)
					}
				}
				rec(tmplAtoms[a]+tmplAtoms[b], 2)
			})
			for _, text := range append([]string{""}, tmplAtoms...) {
				templates++
				for _, tg := range tgs {
					tg, text := tg, text
					checkExport(r, st, tg, text, "ExportWithString", func() (io.Reader, error) { return tg.rep.ExportWithString(text) })
				}
			}
		})
		r.Phase("larger programs", func() {
			for _, text := range tmplPrograms {
				templates++
				for _, tg := range tgs {
					tg, text := tg, text
					checkExport(r, st, tg, text, "ExportWithString", func() (io.Reader, error) { return tg.rep.ExportWithString(text) })
					checkExport(r, st, tg, text, "ExportWith(strings.Reader)", func() (io.Reader, error) { return tg.rep.ExportWith(strings.NewReader(text)) })
				}
			}
		})
		// templates around buffer sizes: filler of every length B-4..B+1 for B in {256 ... 65536},
		// followed by multi-byte text and an action, so that a multi-byte character straddles every
		// likely internal boundary (round 5, C19-B-r5: a validity check on a fixed-size window)
		r.Phase("multi-byte text across buffer boundaries", func() {
			var texts []string
			for _, b := range []int{256, 512, 1024, 2048, 4096, 8192, 16384, 32768, 65536} {
				for d := -4; d <= 1; d++ {
					texts = append(texts, strings.Repeat("a", b+d)+"日本語のテンプレート {{.Vector}} é😀 {{.SeverityValue}}")
				}
			}
			safeParallel(r, len(texts), func(i int) {
				text := texts[i]
				for _, tg := range tgs[:2] {
					tg := tg
					atomic.AddInt64(&templates, 1)
					checkExport(r, st, tg, text, "ExportWithString", func() (io.Reader, error) { return tg.rep.ExportWithString(text) })
					checkExport(r, st, tg, text, "ExportWith(strings.Reader)", func() (io.Reader, error) { return tg.rep.ExportWith(strings.NewReader(text)) })
					checkExport(r, st, tg, text, "ExportWith(bytes.Buffer)", func() (io.Reader, error) { return tg.rep.ExportWith(bytes.NewBufferString(text)) })
					checkExport(r, st, tg, text, "ExportWith(one byte/Read)", func() (io.Reader, error) { return tg.rep.ExportWith(&oneByte{text}) })
					checkExport(r, st, tg, text, "ExportWith(data with EOF)", func() (io.Reader, error) { return tg.rep.ExportWith(&dataWithEOF{s: text}) })
				}
			})
		})
		// readers handed out by earlier exports must keep their content however many exports
		// follow before they are drained (round 5, C01-B-r5: a ring of reused render buffers)
		r.Phase("readers drained late", func() {
			type pending struct {
				rd   io.Reader
				want string
				cs   map[string]any
			}
			var ps []pending
			for round := 0; round < 3; round++ {
				for k := 0; k < 24; k++ {
					tg := tgs[k%len(tgs)]
					text := fmt.Sprintf("%d:%d {{.Vector}} {{.SeverityValue}} {{.BaseScore}} %s", round, k, strings.Repeat("·", k))
					want, stage := reference(tg.data, text)
					if stage != "" {
						continue
					}
					rd, err := tg.rep.ExportWithString(text)
					if k%2 == 1 {
						rd, err = tg.rep.ExportWith(strings.NewReader(text))
					}
					templates++
					if err != nil || isNilReader(rd) {
						continue // judged by the other phases
					}
					ps = append(ps, pending{rd, want, map[string]any{"report": tg.name, "template": text, "via": fmt.Sprintf("reader kept while %d further exports were made, then drained", 0)}})
				}
			}
			for i, p := range ps {
				got, rerr, rp := readAll(p.rd)
				if rerr != nil || rp != "" || got != p.want {
					p.cs["via"] = fmt.Sprintf("reader kept while %d further exports were made, then drained", len(ps)-1-i)
					r.Violate(ev.Violation{Kind: "export-output", Case: p.cs, Observed: fmt.Sprintf("%q err=%v panic=%q", got, rerr, rp), Expected: fmt.Sprintf("%q", p.want)})
				}
			}
		})
		// readers: every template of <= 2 atoms through every reader behaviour
		var readerCases, faultCases int64
		r.Phase("readers and read faults", func() {
			var texts []string
			texts = append(texts, "")
			texts = append(texts, tmplAtoms...)
			for _, a := range tmplAtoms {
				for _, b := range tmplAtoms {
					texts = append(texts, a+b)
				}
			}
			// a template larger than io.Copy's buffer, too
			texts = append(texts, strings.Repeat("{{.Vector}} ", 6000))
			safeParallel(r, len(texts), func(i int) {
				text := texts[i]
				for ti, tg := range tgs {
					tg := tg
					if len(text) > 1000 && ti > 0 {
						continue
					}
					readers := map[string]func() io.Reader{
						"strings.Reader":          func() io.Reader { return strings.NewReader(text) },
						"one byte/Read":           func() io.Reader { return &oneByte{text} },
						"data with EOF":           func() io.Reader { return &dataWithEOF{s: text} },
						"zero-length reads first": func() io.Reader { return &zeroThenData{s: text, zeros: 3} },
						"bytes.Buffer":            func() io.Reader { return bytes.NewBufferString(text) },
						"bytes.Reader":            func() io.Reader { return bytes.NewReader([]byte(text)) },
						"io.SectionReader": func() io.Reader {
							return io.NewSectionReader(strings.NewReader("HDR"+text+"TRAILER"), 3, int64(len(text)))
						},
						"bufio.Reader":      func() io.Reader { return bufio.NewReaderSize(strings.NewReader(text), 16) },
						"iotest.HalfReader": func() io.Reader { return iotest.HalfReader(strings.NewReader(text)) },
						"io.MultiReader": func() io.Reader {
							h := len(text) / 2
							return io.MultiReader(strings.NewReader(text[:h]), strings.NewReader(""), strings.NewReader(text[h:]))
						},
					}
					// readers that were partly consumed before the export: the template is what is left
					for _, adv := range []int{1, len(text) / 2, len(text)} {
						if adv > len(text) || adv == 0 || len(text) > 1000 {
							continue
						}
						adv := adv
						rest := text[adv:]
						for name, mk := range map[string]func() io.Reader{
							"strings.Reader advanced": func() io.Reader { r := strings.NewReader(text); io.CopyN(io.Discard, r, int64(adv)); return r },
							"bytes.Reader advanced":   func() io.Reader { r := bytes.NewReader([]byte(text)); r.Seek(int64(adv), io.SeekStart); return r },
							"bytes.Buffer advanced":   func() io.Reader { b := bytes.NewBufferString(text); b.Next(adv); return b },
						} {
							mk := mk
							atomic.AddInt64(&readerCases, 1)
							checkExport(r, st, tg, rest, fmt.Sprintf("ExportWith(%s by %d of %d bytes)", name, adv, len(text)), func() (io.Reader, error) { return tg.rep.ExportWith(mk()) })
						}
					}
					for name, mk := range readers {
						mk := mk
						atomic.AddInt64(&readerCases, 1)
						checkExport(r, st, tg, text, "ExportWith("+name+")", func() (io.Reader, error) { return tg.rep.ExportWith(mk()) })
					}
					if len(text) > 1000 {
						continue
					}
					// failure after k bytes, for every k <= len
					for k := 0; k <= len(text); k++ {
						for ei, rerr := range readErrors {
							if ei > 0 && ti > 0 {
								continue // every error value on the first report, the plain one on all
							}
							rerr := rerr
							for variant := 0; variant < 2; variant++ {
								variant := variant
								atomic.AddInt64(&faultCases, 1)
								cs := map[string]any{"report": tg.name, "template": text, "via": fmt.Sprintf("ExportWith(reader failing %safter %d bytes with %q)", []string{"", "once "}[variant], k, rerr.Error())}
								rd, err := func() (rd io.Reader, err error) {
									defer func() {
										if x := recover(); x != nil {
											err = fmt.Errorf("panic: %v", x)
											r.Violate(ev.Violation{Kind: "export-panics", Case: cs, Observed: fmt.Sprint(x), Expected: "an error"})
										}
									}()
									if variant == 1 {
										return tg.rep.ExportWith(&failOnce{s: text, k: k, err: rerr})
									}
									return tg.rep.ExportWith(&failAfter{s: text, k: k, err: rerr})
								}()
								if err == nil || !errors.Is(err, cvsserr.ErrInvalidTemplate) {
									r.Violate(ev.Violation{Kind: "read-failure-not-reported", Case: cs, Observed: fmt.Sprintf("err=%v (%s)", err, lib.Class(err)), Expected: "an error matching ErrInvalidTemplate"})
								}
								if !isNilReader(rd) {
									got, _, _ := readAll(rd)
									r.Violate(ev.Violation{Kind: "partial-output", Case: cs, Observed: fmt.Sprintf("a reader holding %q", got), Expected: "no output"})
								}
							}
						}
					}
				}
			})
			// nil reader, nil reports
			for _, tg := range tgs {
				rd, err := tg.rep.ExportWith(nil)
				readerCases++
				if err == nil || !errors.Is(err, cvsserr.ErrInvalidTemplate) || !isNilReader(rd) {
					r.Violate(ev.Violation{Kind: "nil-reader", Case: map[string]any{"report": tg.name, "via": "ExportWith(nil)"}, Observed: fmt.Sprintf("err=%v reader-nil=%v", err, isNilReader(rd)), Expected: "ErrInvalidTemplate, no reader"})
				}
			}
			nilReps := map[string]exporter{"base": (*report.BaseReport)(nil), "temporal": (*report.TemporalReport)(nil), "environmental": (*report.EnvironmentalReport)(nil)}
			for name, rep := range nilReps {
				for _, text := range []string{"", "{{.Vector}}", "{{", "{{.Nope}}"} {
					for _, via := range []string{"ExportWithString", "ExportWith", "ExportWith(nil)"} {
						readerCases++
						cs := map[string]any{"report": "nil " + name + " report", "template": text, "via": via}
						var rd io.Reader
						var err error
						pan := func() (p string) {
							defer func() {
								if x := recover(); x != nil {
									p = fmt.Sprint(x)
								}
							}()
							switch via {
							case "ExportWithString":
								rd, err = rep.ExportWithString(text)
							case "ExportWith":
								rd, err = rep.ExportWith(strings.NewReader(text))
							default:
								rd, err = rep.ExportWith(nil)
							}
							return ""
						}()
						okErr := errors.Is(err, cvsserr.ErrNullPointer) || (via == "ExportWith(nil)" && errors.Is(err, cvsserr.ErrInvalidTemplate))
						if pan != "" || err == nil || !okErr || !isNilReader(rd) {
							r.Violate(ev.Violation{Kind: "nil-report", Case: cs, Observed: fmt.Sprintf("err=%v (%s) reader-nil=%v panic=%q", err, lib.Class(err), isNilReader(rd), pan), Expected: "ErrNullPointer, no reader, no panic"})
						}
					}
				}
			}
		})
		r.Add("evaluations", atomic.LoadInt64(&st.n)+faultCases)
		r.Add("distinct_nontrivial", templates)
		r.Set("templates", templates)
		r.Set("grammar_atoms", int64(na))
		r.Set("max_atoms_per_template", int64(maxAtoms))
		r.Set("reference_succeeds", atomic.LoadInt64(&st.okRef))
		r.Set("reference_fails_at_parse", atomic.LoadInt64(&st.parseFail))
		r.Set("reference_fails_at_execute", atomic.LoadInt64(&st.execFail))
		r.Set("reader_behaviour_cases", readerCases)
		r.Set("read_fault_positions", faultCases)
		r.Sample(map[string]any{"template": "{{with .TemporalReport}}{{.Vector}}{{end}}", "reports": "base/temporal/environmental x en/ja", "via": "ExportWithString"})
		r.Sample(map[string]any{"template": "{{if .Vector}}{{.Nope}}", "reader": "failing after k bytes for every k <= len"})
		r.Set("exhaustive", true)
		r.Set("rule", fmt.Sprintf("every sequence of <= %d atoms over a %d-atom template grammar (literals, field references of all three report levels incl. shadowed ones, unknown field/function, pipelines, if/else/end/with/range as separate atoms so that unbalanced and type-incorrect programs occur, comments, trim markers, bare '{{', define/template, three markup contexts) plus a catalogue of larger programs (terminating and unbounded recursion, nested definitions, blocks, variables, range/else, break/continue, multi-stage pipelines, markup documents) x 3 report levels x 2 languages, compared with Go's text/template parsed and executed afresh on the same report value; every template of <= 2 atoms through 5 reader behaviours and through a reader failing after k bytes for every k <= len with each of 15 error values (io.ErrUnexpectedEOF, a wrapped io.EOF, closed pipe, EINTR/EAGAIN and other errors that call themselves temporary, ...), from a reader that keeps failing and from one that fails once and would then deliver the rest; templates with multi-byte text across every buffer boundary 256...65536; readers drained after up to 70 further exports; nil reader; nil reports; distinct by template text", maxAtoms, na))
		r.Assume("Go's text/template is the reference for 'faithful' (the property's own definition)")
		if atomic.LoadInt64(&st.okRef) == 0 || atomic.LoadInt64(&st.parseFail) == 0 || atomic.LoadInt64(&st.execFail) == 0 {
			r.Infra("vacuity guard: the template grammar did not produce all three reference outcomes")
		}
	})
}
