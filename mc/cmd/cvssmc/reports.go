package main

// C17: every report field shows its own metric, in the requested language.

import (
	"fmt"
	"reflect"
	"strconv"
	"strings"
	"sync/atomic"

	"cvssmc/internal/dump"
	"cvssmc/internal/ev"
	"cvssmc/internal/lang"
	"cvssmc/internal/lib"
	"cvssmc/internal/oracle"
	"cvssmc/internal/spec"

	v3 "github.com/goark/go-cvss/v3/metric"
	"github.com/goark/go-cvss/v3/report"
	"golang.org/x/text/language"
)

var bandConst = map[string]v3.Severity{"None": v3.SeverityNone, "Low": v3.SeverityLow, "Medium": v3.SeverityMedium, "High": v3.SeverityHigh, "Critical": v3.SeverityCritical}

// expectedReport returns field name -> expected text for the report struct of one level
// (only the fields declared by that level's struct, not the embedded ones).
func expectedReport(level int, verLabel string, tok map[string]string, l language.Tag) map[string]string {
	c := v3Case(verLabel, tok)
	score := v3Want(&c, level)
	e := map[string]string{}
	e["Vector"] = lang.Canonical(3, level, verLabel, tok)
	sev := severityEntry()
	e["SeverityName"] = sev.title(l)
	e["SeverityValue"] = sev.value(int(bandConst[spec.V3Band(score)]), l)
	scoreText := strconv.FormatFloat(float64(score)/10, 'f', -1, 64)
	switch level {
	case 0:
		e["Version"] = verLabel
		e["BaseMetrics"], e["BaseMetricValue"] = nameTable[23].title(l), headerFns["BaseMetricsValueOf"](l)
		e["BaseScore"] = scoreText
	case 1:
		e["TemporalMetrics"], e["TemporalMetricValue"] = nameTable[24].title(l), headerFns["TemporalMetricsValueOf"](l)
		e["TemporalScore"] = scoreText
	case 2:
		e["EnvironmentalMetrics"], e["EnvironmentalMetricValue"] = nameTable[25].title(l), headerFns["EnvironmentalMetricsValueOf"](l)
		e["EnvironmentalScore"] = scoreText
	}
	for _, m := range spec.At(3, level) {
		ne := nameEntryOf(m.Name)
		en := lib.EnumOf(3, m.Name)
		code, ok := tok[m.Name]
		if !ok {
			code = m.NDCode()
		}
		k, _ := en.ConstOf(code)
		e[m.Name+"Name"] = ne.title(l)
		e[m.Name+"Value"] = ne.value(k, l)
	}
	return e
}

// ownFields returns the exported string fields declared directly by a report struct.
func ownFields(v reflect.Value) map[string]string {
	out := map[string]string{}
	t := v.Type()
	for i := 0; i < t.NumField(); i++ {
		f := t.Field(i)
		if f.Anonymous || !f.IsExported() || f.Type.Kind() != reflect.String {
			continue
		}
		out[f.Name] = v.Field(i).String()
	}
	return out
}

func compareReport(r *ev.Run, cs map[string]any, level int, got, want map[string]string, exact bool) {
	for k, g := range got {
		w, ok := want[k]
		if !ok {
			// a field the property text cannot be applied to by name: recorded, not judged
			r.Set("uncovered_report_field_"+spec.LevelNames[level]+"."+k, "not covered by the harness table (reports.go)")
			continue
		}
		if !exact {
			// regional variants: unspecified by the property, only language-independent fields and
			// non-emptiness are checked
			switch k {
			case "Vector", "Version", "BaseScore", "TemporalScore", "EnvironmentalScore":
			default:
				if g == "" {
					r.Violate(ev.Violation{Kind: "empty-report-field", Case: with(cp(cs), "field", spec.LevelNames[level]+"."+k), Observed: "empty", Expected: "non-empty"})
				}
				continue
			}
		}
		if g != w {
			r.Violate(ev.Violation{Kind: "report-field", Case: with(cp(cs), "field", spec.LevelNames[level]+"."+k), Observed: g, Expected: w,
				GoTest: fmt.Sprintf("// decode %v, build the report with language %v, compare field %s", cs["vector"], cs["language"], k)})
		}
	}
	for k := range want {
		if _, ok := got[k]; !ok {
			r.Violate(ev.Violation{Kind: "report-field-missing", Case: with(cp(cs), "field", spec.LevelNames[level]+"."+k), Observed: "no such exported string field", Expected: want[k]})
		}
	}
}

func cp(m map[string]any) map[string]any {
	r := map[string]any{}
	for k, v := range m {
		r[k] = v
	}
	return r
}

type langCase struct {
	name  string
	opts  []report.ReportOptionsFunc
	tag   language.Tag
	exact bool
}

func reportLangs() []langCase {
	mk := func(name string, t language.Tag, exact bool) langCase {
		return langCase{name, []report.ReportOptionsFunc{report.WithOptionsLanguage(t)}, t, exact}
	}
	return []langCase{
		{"(default)", nil, language.English, true},
		mk("en", language.English, true), mk("ja", language.Japanese, true), mk("und", language.Und, true),
		mk("fr", language.French, true), mk("de", language.German, true), mk("zh", language.Chinese, true),
		mk("en-US", language.AmericanEnglish, false), mk("ja-JP", language.MustParse("ja-JP"), false),
	}
}

// deviationVectors: every vector that differs from the background in at most `dev` metrics.
func deviationVectors(bg map[string]string, dev int) []map[string]string {
	ms := spec.V3
	var out []map[string]string
	var rec func(start int, cur map[string]string, left int)
	rec = func(start int, cur map[string]string, left int) {
		out = append(out, copyTok(cur))
		if left == 0 {
			return
		}
		for i := start; i < len(ms); i++ {
			orig := cur[ms[i].Name]
			for _, c := range ms[i].Codes {
				if c.Code == orig {
					continue
				}
				cur[ms[i].Name] = c.Code
				rec(i+1, cur, left-1)
			}
			cur[ms[i].Name] = orig
		}
	}
	rec(0, copyTok(bg), dev)
	return out
}

func reportBackgrounds() []struct {
	ver string
	tok map[string]string
} {
	return []struct {
		ver string
		tok map[string]string
	}{
		// neighbouring metrics carry different values (and different display names)
		{"3.1", map[string]string{"AV": "N", "AC": "H", "PR": "L", "UI": "R", "S": "C", "C": "H", "I": "L", "A": "N", "E": "F", "RL": "W", "RC": "R", "CR": "H", "IR": "M", "AR": "L", "MAV": "A", "MAC": "L", "MPR": "H", "MUI": "N", "MS": "U", "MC": "L", "MI": "N", "MA": "H"}},
		{"3.0", map[string]string{"AV": "P", "AC": "L", "PR": "N", "UI": "N", "S": "U", "C": "N", "I": "H", "A": "L", "E": "U", "RL": "O", "RC": "C", "CR": "L", "IR": "H", "AR": "M", "MAV": "L", "MAC": "H", "MPR": "L", "MUI": "R", "MS": "C", "MC": "N", "MI": "H", "MA": "L"}},
		{"3.1", map[string]string{"AV": "A", "AC": "L", "PR": "H", "UI": "R", "S": "U", "C": "L", "I": "N", "A": "H", "E": "X", "RL": "X", "RC": "X", "CR": "X", "IR": "X", "AR": "X", "MAV": "X", "MAC": "X", "MPR": "X", "MUI": "X", "MS": "X", "MC": "X", "MI": "X", "MA": "X"}},
		{"3.0", map[string]string{"AV": "L", "AC": "H", "PR": "L", "UI": "N", "S": "C", "C": "H", "I": "H", "A": "H", "E": "P", "RL": "T", "RC": "U", "CR": "M", "IR": "L", "AR": "H", "MAV": "N", "MAC": "L", "MPR": "N", "MUI": "N", "MS": "C", "MC": "H", "MI": "L", "MA": "N"}},
		// environmental score differs between 3.0 (9.0) and 3.1 (8.9)
		{"3.1", map[string]string{"AV": "N", "AC": "L", "PR": "N", "UI": "R", "S": "U", "C": "L", "I": "H", "A": "H", "E": "X", "RL": "X", "RC": "X", "CR": "X", "IR": "X", "AR": "L", "MAV": "X", "MAC": "X", "MPR": "X", "MUI": "X", "MS": "C", "MC": "X", "MI": "X", "MA": "X"}},
	}
}

// reportScoreText builds the report of the object's own level and returns the score field of the
// given level (reached through the embedded reports).
func reportScoreText(o any, lv int) (txt string, ok bool) {
	defer func() {
		if recover() != nil {
			ok = false
		}
	}()
	var base *report.BaseReport
	var temp *report.TemporalReport
	var env *report.EnvironmentalReport
	switch x := o.(type) {
	case *v3.Base:
		base = report.NewBase(x)
	case *v3.Temporal:
		temp = report.NewTemporal(x)
		base = temp.BaseReport
	case *v3.Environmental:
		env = report.NewEnvironmental(x)
		temp = env.TemporalReport
		base = temp.BaseReport
	default:
		return "", false
	}
	switch {
	case lv == 0 && base != nil:
		return base.BaseScore, true
	case lv == 1 && temp != nil:
		return temp.TemporalScore, true
	case lv == 2 && env != nil:
		return env.EnvironmentalScore, true
	}
	return "", false
}

// checkFullReport compares all three nested reports of an environmental report.
func checkFullReport(r *ev.Run, cs map[string]any, rep *report.EnvironmentalReport, verLabel string, tok map[string]string, lc langCase) {
	if rep == nil || rep.TemporalReport == nil || rep.TemporalReport.BaseReport == nil {
		r.Violate(ev.Violation{Kind: "report-nil", Case: cs, Observed: "nil report or embedded report", Expected: "three nested reports"})
		return
	}
	compareReport(r, cs, 2, ownFields(reflect.ValueOf(rep).Elem()), expectedReport(2, verLabel, tok, lc.tag), lc.exact)
	compareReport(r, cs, 1, ownFields(reflect.ValueOf(rep.TemporalReport).Elem()), expectedReport(1, verLabel, tok, lc.tag), lc.exact)
	compareReport(r, cs, 0, ownFields(reflect.ValueOf(rep.TemporalReport.BaseReport).Elem()), expectedReport(0, verLabel, tok, lc.tag), lc.exact)
}

// languageOrders: every ordered pair of language settings (no option, en, ja, und, fr), one report
// after the other in one goroutine, on the same and on different objects; the second report must
// be in its own language whatever was requested before.
func languageOrders(r *ev.Run, langs []langCase, n *int64) {
	bgs := reportBackgrounds()
	ls := langs[:5]
	for i, a := range ls {
		for j, b := range ls {
			for k := 0; k < 2; k++ {
				bg1, bg2 := bgs[(i+j)%len(bgs)], bgs[(i+j+k)%len(bgs)]
				s1, s2 := canonicalWritten(3, 2, bg1.ver, bg1.tok), canonicalWritten(3, 2, bg2.ver, bg2.tok)
				e1, err1 := v3.NewEnvironmental().Decode(s1)
				e2, err2 := v3.NewEnvironmental().Decode(s2)
				if err1 != nil || err2 != nil {
					continue
				}
				if k == 0 {
					e2 = e1
				}
				first := report.NewEnvironmental(e1, a.opts...)
				second := report.NewEnvironmental(e2, b.opts...)
				*n += 2
				checkFullReport(r, map[string]any{"vector": s1, "language": a.name, "report": "NewEnvironmental", "sequence": "first report"}, first, bg1.ver, bg1.tok, a)
				checkFullReport(r, map[string]any{"vector": s2, "language": b.name, "report": "NewEnvironmental", "sequence": "built right after a report in language " + a.name + " of " + s1}, second, bg2.ver, bg2.tok, b)
				// lower-level constructors in the same order
				t1 := report.NewTemporal(e1.TemporalMetrics(), a.opts...)
				b2 := report.NewBase(e2.BaseMetrics(), b.opts...)
				*n += 2
				if t1 != nil && b2 != nil {
					compareReport(r, map[string]any{"vector": s2, "language": b.name, "report": "NewBase", "sequence": "built right after NewTemporal in language " + a.name}, 0, ownFields(reflect.ValueOf(b2).Elem()), expectedReport(0, bg2.ver, bg2.tok, b.tag), b.exact)
				}
			}
		}
	}
}

// languageChurn: reports in 5,000 (thorough 70,000) distinct language tags, one after the other in
// one process; every 61st step the English, Japanese, undetermined and two earlier tags are asked
// again and must give the report they gave at the start (round 6, C17-B-r6: a bounded table of
// resolved languages whose positions drift after its first eviction at 4,096 tags).
func languageChurn(r *ev.Run, thorough bool, n *int64) {
	steps := 5000
	if thorough {
		steps = 70000
	}
	bg := reportBackgrounds()[0]
	s := canonicalWritten(3, 2, bg.ver, bg.tok)
	em, err := v3.NewEnvironmental().Decode(s)
	if err != nil {
		return
	}
	rep := func(l language.Tag) string {
		return dump.Of(report.NewEnvironmental(em, report.WithOptionsLanguage(l)))
	}
	refEn, refJa := rep(language.English), rep(language.Japanese)
	var recent []language.Tag
	for i := 1; i <= steps; i++ {
		t, err := language.Parse(fmt.Sprintf("%s-x-n%05d", []string{"de", "fr", "zh", "und", "ko"}[i%5], i))
		if err != nil {
			continue
		}
		*n++
		if i%7 == 0 {
			if got := rep(t); got != refEn {
				r.Violate(ev.Violation{Kind: "report-not-in-english-for-another-language", Case: map[string]any{"vector": s, "language": t.String(), "distinct_language_tags_used_so_far": i}, Observed: got, Expected: refEn})
				return
			}
		} else {
			report.NewBase(em.BaseMetrics(), report.WithOptionsLanguage(t))
		}
		recent = append(recent, t)
		if i%61 == 0 || i == steps {
			bad := ""
			switch {
			case rep(language.English) != refEn:
				bad = "the English report changed"
			case rep(language.Japanese) != refJa:
				bad = "the Japanese report changed"
			case rep(language.Und) != refEn:
				bad = "the report for the undetermined language is no longer the English one"
			case rep(recent[len(recent)-1]) != refEn, rep(recent[len(recent)/2]) != refEn:
				bad = "the report for a language tag used before is no longer the English one"
			}
			*n += 5
			if bad != "" {
				r.Violate(ev.Violation{Kind: "report-changes-after-many-language-tags", Case: map[string]any{"vector": s, "distinct_language_tags_used_so_far": i, "tags": "de-x-n00001, fr-x-n00002, zh-x-n00003, ... (one report each)"}, Observed: bad, Expected: "a report does not depend on which other languages the process asked for before"})
				return
			}
		}
	}
	r.Set("language_churn_distinct_tags", steps)
}

// reportWrapAround: the vector K is reported (twice, in Japanese), then exactly n other reports are
// built — n language changes on another vector, or n distinct vectors never reported before — with
// no report of K in between, then K is reported again in another language and must be the English
// report it would be in a fresh process.  n runs over the places where an 8- or 16-bit counter or
// a table of 2^16 entries wraps: 255..257 and 65,535..65,537 (round 7, C17-A-r7: a 65,536-entry
// slab recycled under a stale front pointer; C17-B-r7: a uint16 generation stamp).
func reportWrapAround(r *ev.Run, thorough bool, n *int64) {
	bgs := reportBackgrounds()
	K, err := v3.NewEnvironmental().Decode(canonicalWritten(3, 2, bgs[0].ver, bgs[0].tok))
	other, err2 := v3.NewEnvironmental().Decode(canonicalWritten(3, 2, bgs[1].ver, bgs[1].tok))
	if err != nil || err2 != nil {
		return
	}
	rep := func(m *v3.Environmental, l language.Tag) string {
		return dump.Of(report.NewEnvironmental(m, report.WithOptionsLanguage(l)))
	}
	refFr, refJa := rep(K, language.French), rep(K, language.Japanese)
	ems := spec.At(3, 2)
	bms := spec.At(3, 0)
	distinct := func(i int) *v3.Environmental {
		// base vector i (mod 2592) with environmental values from the higher digits: never K, never repeated
		tok := map[string]string{}
		x := i
		for _, m := range bms {
			tok[m.Name] = m.Codes[x%len(m.Codes)].Code
			x /= len(m.Codes)
		}
		for _, m := range ems {
			tok[m.Name] = m.Codes[x%len(m.Codes)].Code
			x /= len(m.Codes)
		}
		m, err := v3.NewEnvironmental().Decode(canonicalWritten(3, 2, "3.1", tok))
		if err != nil {
			return other
		}
		return m
	}
	counts := []int{255, 256, 257, 65535, 65536, 65537}
	used := 0
	for _, mode := range []string{"language changes on another vector", "distinct vectors never reported before"} {
		for _, cnt := range counts {
			rep(K, language.Japanese)
			rep(K, language.Japanese)
			for i := 0; i < cnt; i++ {
				if mode[0] == 'l' {
					report.NewEnvironmental(other, report.WithOptionsLanguage([]language.Tag{language.English, language.French}[i%2]))
				} else {
					report.NewEnvironmental(distinct(used), report.WithOptionsLanguage(language.Japanese))
					used++
				}
			}
			*n += int64(cnt) + 4
			got := rep(K, language.French)
			if got2 := rep(K, language.Japanese); got != refFr || got2 != refJa {
				what := "the report of K in French (English names expected)"
				if got == refFr {
					what, got, refFr = "the report of K in Japanese", got2, refJa
				}
				r.Violate(ev.Violation{Kind: "report-changes-after-a-long-history", Case: map[string]any{"vector": canonicalWritten(3, 2, bgs[0].ver, bgs[0].tok),
					"history": fmt.Sprintf("K reported twice in Japanese; then exactly %d reports: %s, none of K; then %s", cnt, mode, what)}, Observed: got, Expected: refFr})
				return
			}
		}
	}
	r.Set("report_wrap_around_counts", counts)
}

// optionLists: every list of one to three language options over {en, ja, fr, und} (84 lists) at
// every report constructor.  What several language options mean is not spelled out by the
// property, so the oracle is deliberately weak: (a) the whole report — the outer level and both
// embedded levels — is in ONE language; (b) that language is the one requested by the first or by
// the last option (fr and und count as English); (c) the library follows one of these two
// policies for all lists.  A list whose options all ask for the same names leaves no choice.
func optionLists(r *ev.Run, n *int64) {
	tags := []struct {
		name string
		tag  language.Tag
		ja   bool
	}{{"en", language.English, false}, {"ja", language.Japanese, true}, {"fr", language.French, false}, {"und", language.Und, false}}
	var lists [][]int
	for a := range tags {
		lists = append(lists, []int{a})
		for b := range tags {
			lists = append(lists, []int{a, b})
			for c := range tags {
				lists = append(lists, []int{a, b, c})
			}
		}
	}
	bgs := reportBackgrounds()[:2]
	en, ja := langCase{"en", nil, language.English, true}, langCase{"ja", nil, language.Japanese, true}
	firstWins, lastWins := "", ""
	for _, bg := range bgs {
		s := canonicalWritten(3, 2, bg.ver, bg.tok)
		em, err := v3.NewEnvironmental().Decode(s)
		if err != nil {
			continue
		}
		for _, list := range lists {
			var opts []report.ReportOptionsFunc
			names := []string{}
			for _, i := range list {
				opts = append(opts, report.WithOptionsLanguage(tags[i].tag))
				names = append(names, tags[i].name)
			}
			desc := "[" + fmt.Sprint(names) + "]"
			first, last := tags[list[0]].ja, tags[list[len(list)-1]].ja
			for level := 2; level >= 0; level-- {
				cs := map[string]any{"vector": s, "language_options": desc, "report": "New" + map[int]string{0: "Base", 1: "Temporal", 2: "Environmental"}[level]}
				var reps []reflect.Value // outer level first
				switch level {
				case 2:
					rep := report.NewEnvironmental(em, opts...)
					if rep == nil || rep.TemporalReport == nil || rep.TemporalReport.BaseReport == nil {
						r.Violate(ev.Violation{Kind: "report-nil", Case: cs, Observed: "nil", Expected: "report"})
						continue
					}
					reps = []reflect.Value{reflect.ValueOf(rep).Elem(), reflect.ValueOf(rep.TemporalReport).Elem(), reflect.ValueOf(rep.TemporalReport.BaseReport).Elem()}
				case 1:
					rep := report.NewTemporal(em.TemporalMetrics(), opts...)
					if rep == nil || rep.BaseReport == nil {
						r.Violate(ev.Violation{Kind: "report-nil", Case: cs, Observed: "nil", Expected: "report"})
						continue
					}
					reps = []reflect.Value{reflect.ValueOf(rep).Elem(), reflect.ValueOf(rep.BaseReport).Elem()}
				case 0:
					rep := report.NewBase(em.BaseMetrics(), opts...)
					if rep == nil {
						r.Violate(ev.Violation{Kind: "report-nil", Case: cs, Observed: "nil", Expected: "report"})
						continue
					}
					reps = []reflect.Value{reflect.ValueOf(rep).Elem()}
				}
				*n++
				// which language is each level in?
				inLang := func(lc langCase) bool {
					for i, rv := range reps {
						got, want := ownFields(rv), expectedReport(level-i, bg.ver, bg.tok, lc.tag)
						for k, g := range got {
							if w, ok := want[k]; ok && g != w {
								return false
							}
						}
					}
					return true
				}
				isEn, isJa := inLang(en), inLang(ja)
				switch {
				case !isEn && !isJa:
					r.Violate(ev.Violation{Kind: "report-mixes-languages", Case: cs, Observed: "neither all-English nor all-Japanese over the outer and the embedded reports (or a wrong field)", Expected: "one language for the whole report"})
				case first == last && isJa != first:
					r.Violate(ev.Violation{Kind: "report-language", Case: cs, Observed: map[bool]string{true: "Japanese", false: "English"}[isJa], Expected: map[bool]string{true: "Japanese", false: "English"}[first] + " (the first and the last option both ask for it)"})
				case first != last:
					if isJa == first {
						firstWins = desc
					} else {
						lastWins = desc
					}
				}
			}
		}
	}
	// option slices owned by the caller, with spare capacity and a shared backing array: a library
	// that appends to the slice it was given writes into the caller's array (round 5, C17-A-r5)
	for _, bg := range bgs {
		s := canonicalWritten(3, 2, bg.ver, bg.tok)
		em, err := v3.NewEnvironmental().Decode(s)
		if err != nil {
			continue
		}
		for level := 2; level >= 0; level-- {
			build := func(opts []report.ReportOptionsFunc) string {
				switch level {
				case 2:
					return dump.Of(report.NewEnvironmental(em, opts...))
				case 1:
					return dump.Of(report.NewTemporal(em.TemporalMetrics(), opts...))
				}
				return dump.Of(report.NewBase(em.BaseMetrics(), opts...))
			}
			common := make([]report.ReportOptionsFunc, 0, 4)
			jaList := append(common, report.WithOptionsLanguage(language.Japanese))
			first := build(jaList)
			build(common)
			enja := append(jaList[:1:4], report.WithOptionsLanguage(language.English)) // shares the array; [ja, en]
			build(enja[:1])
			third := build(jaList)
			*n += 4
			fresh := build([]report.ReportOptionsFunc{report.WithOptionsLanguage(language.Japanese)})
			cs := map[string]any{"vector": s, "report": "New" + map[int]string{0: "Base", 1: "Temporal", 2: "Environmental"}[level],
				"history": []string{"common := make([]ReportOptionsFunc, 0, 4); ja := append(common, WithOptionsLanguage(Japanese))", "New(m, ja...)", "New(m, common...)", "New(m, ja[:1]...) again through a sibling slice", "New(m, ja...)"}}
			if first != fresh {
				r.Violate(ev.Violation{Kind: "report-depends-on-option-slice-capacity", Case: cs, Observed: first, Expected: fresh + "  (the same options passed as a literal)"})
			} else if third != first {
				r.Violate(ev.Violation{Kind: "report-changes-callers-option-slice", Case: cs, Observed: third, Expected: first + "  (the first report built from the same slice)"})
			}
		}
	}
	// many languages in one process, Japanese first, every tag asked twice in a row and once more
	// at the end: English for every tag that is neither en nor ja, whatever was asked before
	// (round 5, C18-A-r5: a 16-slot table of per-language titles recycled with a stale pairing)
	{
		bg := bgs[0]
		s := canonicalWritten(3, 2, bg.ver, bg.tok)
		if em, err := v3.NewEnvironmental().Decode(s); err == nil {
			tags := []language.Tag{language.Japanese}
			for _, c := range strings.Fields("fr de es it pt nl sv da fi nb pl cs sk hu ro bg el tr ru uk he ar fa hi bn ta th vi id ms ko zh zh-Hant yue ka hy az kk uz mn und") {
				tags = append(tags, language.MustParse(c))
			}
			tags = append(tags, language.English, language.Japanese)
			check := func(t language.Tag, when string) {
				rep := report.NewEnvironmental(em, report.WithOptionsLanguage(t))
				*n++
				lc := langCase{t.String(), nil, t, true}
				checkFullReport(r, map[string]any{"vector": s, "language": t.String(), "report": "NewEnvironmental", "sequence": when}, rep, bg.ver, bg.tok, lc)
			}
			for i, t := range tags {
				check(t, fmt.Sprintf("language %d of %d distinct ones asked in this order, Japanese first", i+1, len(tags)))
				check(t, fmt.Sprintf("language %d of %d, asked a second time", i+1, len(tags)))
			}
			for i := len(tags) - 1; i >= 0; i-- {
				check(tags[i], "asked again after all the others, in reverse order")
			}
		}
	}
	if firstWins != "" && lastWins != "" {
		r.Violate(ev.Violation{Kind: "report-language-policy", Case: map[string]any{"option_list_where_the_first_option_decided": firstWins, "option_list_where_the_last_option_decided": lastWins},
			Observed: "the first language option decides for one list and the last one for another", Expected: "one policy for all lists"})
	}
}

// reportsAfterAssignment: report, assign one exported metric field (or the version) of the same
// object, report again in the same language: the second report shows the object as it is now.
func reportsAfterAssignment(r *ev.Run, langs []langCase, n *int64) {
	for _, bg := range reportBackgrounds()[:2] {
		s := canonicalWritten(3, 2, bg.ver, bg.tok)
		for _, lc := range langs {
			for _, m := range spec.V3 {
				en := lib.EnumOf(3, m.Name)
				for ci, c := range m.Codes {
					if c.Code == bg.tok[m.Name] {
						continue
					}
					em, err := v3.NewEnvironmental().Decode(s)
					if err != nil {
						continue
					}
					_ = report.NewEnvironmental(em, lc.opts...)
					lib.SetField(em, m.Name, en.Consts[ci])
					tok := copyTok(bg.tok)
					tok[m.Name] = c.Code
					rep := report.NewEnvironmental(em, lc.opts...)
					*n++
					cs := map[string]any{"vector": s, "language": lc.name, "report": "NewEnvironmental", "sequence": fmt.Sprintf("report, then field %s assigned the value for %s, then report again", m.Name, c.Code)}
					if rep == nil || rep.TemporalReport == nil || rep.TemporalReport.BaseReport == nil {
						r.Violate(ev.Violation{Kind: "report-nil", Case: cs, Observed: "nil", Expected: "report"})
						continue
					}
					// the Vector fields follow Encode(), which reflects the assigned value as well
					checkFullReport(r, cs, rep, bg.ver, tok, lc)
					break // one alternative value per metric
				}
			}
			// version label
			em, err := v3.NewEnvironmental().Decode(s)
			if err == nil {
				_ = report.NewEnvironmental(em, lc.opts...)
				other := "3.0"
				ov := int(v3.V3_0)
				if bg.ver == "3.0" {
					other, ov = "3.1", int(v3.V3_1)
				}
				lib.SetV3Ver(em, ov)
				rep := report.NewEnvironmental(em, lc.opts...)
				*n++
				checkFullReport(r, map[string]any{"vector": s, "language": lc.name, "report": "NewEnvironmental", "sequence": "report, then Ver assigned " + other + ", then report again"}, rep, other, bg.tok, lc)
			}
		}
	}
}

// scoreSweep renders one vector for every attainable (level, score) pair, so that every score
// value 0.0 … 10.0 that a level can take appears in a report score field at least once.
func scoreSweep(r *ev.Run, langs []langCase, n *int64) {
	bases, temps := allTok(3, 0), allTok(3, 1)
	envs := v3EnvSuffixes()
	seen := [3]map[int]bool{{}, {}, {}}
	type pick struct {
		ver string
		tok map[string]string
	}
	var picks []pick
	for vi, verLabel := range spec.V3Versions {
		for bi, b := range bases {
			for ti := 0; ti < len(temps); ti += 7 {
				e := envs[(bi+ti+vi)%len(envs)]
				tok := merge(merge(b, temps[ti]), e)
				c := v3Case(verLabel, tok)
				fresh := false
				for lv := 0; lv < 3; lv++ {
					if w := v3Want(&c, lv); !seen[lv][w] {
						seen[lv][w] = true
						fresh = true
					}
				}
				if fresh {
					picks = append(picks, pick{verLabel, tok})
				}
			}
		}
	}
	for _, p := range picks {
		s := canonicalWritten(3, 2, p.ver, p.tok)
		em, err := v3.NewEnvironmental().Decode(s)
		if err != nil || em == nil {
			r.Violate(ev.Violation{Kind: "valid-vector-not-decoded", Case: map[string]any{"vector": s}, Observed: fmt.Sprint(err), Expected: "accepted"})
			continue
		}
		for _, lc := range langs {
			cs := map[string]any{"vector": s, "language": lc.name, "report": "NewEnvironmental"}
			rep := report.NewEnvironmental(em, lc.opts...)
			*n++
			if rep == nil || rep.TemporalReport == nil || rep.TemporalReport.BaseReport == nil {
				r.Violate(ev.Violation{Kind: "report-nil", Case: cs, Observed: "nil report or embedded report", Expected: "three nested reports"})
				continue
			}
			compareReport(r, cs, 2, ownFields(reflect.ValueOf(rep).Elem()), expectedReport(2, p.ver, p.tok, lc.tag), lc.exact)
			compareReport(r, cs, 1, ownFields(reflect.ValueOf(rep.TemporalReport).Elem()), expectedReport(1, p.ver, p.tok, lc.tag), lc.exact)
			compareReport(r, cs, 0, ownFields(reflect.ValueOf(rep.TemporalReport.BaseReport).Elem()), expectedReport(0, p.ver, p.tok, lc.tag), lc.exact)
		}
	}
	r.Set("score_sweep_vectors", int64(len(picks)))
	for lv := 0; lv < 3; lv++ {
		r.Set("score_sweep_distinct_"+spec.LevelNames[lv]+"_scores_rendered", int64(len(seen[lv])))
	}
}

func init() {
	register("C17", "exploration", func(r *ev.Run, thorough bool) {
		_ = oracle.GetV3()
		langs := reportLangs()
		dev := 2
		if thorough {
			dev = 3
		}
		var n, nv int64
		// single-threaded sequences first: they must not be disturbed by the parallel sweep below
		r.Phase("first report of a fresh process", func() {
			var fe [][]string
			for _, l := range []string{"fr", "und", "de", "ja", "en", "zh-Hans", "en-US"} {
				fe = append(fe, []string{"report", l})
			}
			firstUse(r, fe)
		})
		r.Phase("reports after other process histories and under other environments", func() {
			var es [][]string
			for _, l := range []string{"und", "fr", "en", "ja", "de-x-any"} {
				es = append(es, []string{"reports", l})
			}
			historyAndEnvironment(r, es, []string{"v2-first", "both"})
		})
		r.Phase("language orders", func() { languageOrders(r, langs, &n) })
		r.Phase("language churn", func() { languageChurn(r, thorough, &n) })
		r.Phase("counter wrap-around", func() { reportWrapAround(r, thorough, &n) })
		r.Phase("reports after field assignment", func() { reportsAfterAssignment(r, langs[:3], &n) })
		r.Phase("language option lists", func() { optionLists(r, &n) })
		for bi, bg := range reportBackgrounds() {
			d := dev
			_ = bi
			vecs := deviationVectors(bg.tok, d)
			atomic.AddInt64(&nv, int64(len(vecs)))
			verLabel := bg.ver
			safeParallel(r, len(vecs), func(i int) {
				tok := vecs[i]
				s := canonicalWritten(3, 2, verLabel, tok)
				em, err := v3.NewEnvironmental().Decode(s)
				if err != nil || em == nil {
					r.Violate(ev.Violation{Kind: "valid-vector-not-decoded", Case: map[string]any{"vector": s}, Observed: fmt.Sprint(err), Expected: "accepted"})
					return
				}
				ls := langs
				if i%8 != 0 {
					ls = langs[:5] // every vector in default/en/ja/und/fr; every 8th also in the remaining tags
				}
				for _, lc := range ls {
					cs := map[string]any{"vector": s, "language": lc.name, "report": "NewEnvironmental"}
					rep := report.NewEnvironmental(em, lc.opts...)
					atomic.AddInt64(&n, 1)
					if rep == nil || rep.TemporalReport == nil || rep.TemporalReport.BaseReport == nil {
						r.Violate(ev.Violation{Kind: "report-nil", Case: cs, Observed: "nil report or embedded report", Expected: "three nested reports"})
						continue
					}
					compareReport(r, cs, 2, ownFields(reflect.ValueOf(rep).Elem()), expectedReport(2, verLabel, tok, lc.tag), lc.exact)
					compareReport(r, cs, 1, ownFields(reflect.ValueOf(rep.TemporalReport).Elem()), expectedReport(1, verLabel, tok, lc.tag), lc.exact)
					compareReport(r, cs, 0, ownFields(reflect.ValueOf(rep.TemporalReport.BaseReport).Elem()), expectedReport(0, verLabel, tok, lc.tag), lc.exact)
					// shadowing: the promoted names resolve to the highest level
					if rep.Vector != rep.TemporalReport.Vector && rep.SeverityValue == "" {
						r.Violate(ev.Violation{Kind: "report-field", Case: cs, Observed: "empty promoted field", Expected: "environmental level values"})
					}
				}
				if i%4 == 0 {
					// lower-level reports built from lower-level decodes of the projection
					for _, lc := range langs[:3] {
						ttok := lang.Project(3, 1, tok)
						tm, err := v3.NewTemporal().Decode(canonicalWritten(3, 1, verLabel, ttok))
						if err == nil {
							cs := map[string]any{"vector": canonicalWritten(3, 1, verLabel, ttok), "language": lc.name, "report": "NewTemporal"}
							rep := report.NewTemporal(tm, lc.opts...)
							atomic.AddInt64(&n, 1)
							compareReport(r, cs, 1, ownFields(reflect.ValueOf(rep).Elem()), expectedReport(1, verLabel, ttok, lc.tag), lc.exact)
							compareReport(r, cs, 0, ownFields(reflect.ValueOf(rep.BaseReport).Elem()), expectedReport(0, verLabel, ttok, lc.tag), lc.exact)
						}
						btok := lang.Project(3, 0, tok)
						bm, err := v3.NewBase().Decode(canonicalWritten(3, 0, verLabel, btok))
						if err == nil {
							cs := map[string]any{"vector": canonicalWritten(3, 0, verLabel, btok), "language": lc.name, "report": "NewBase"}
							rep := report.NewBase(bm, lc.opts...)
							atomic.AddInt64(&n, 1)
							compareReport(r, cs, 0, ownFields(reflect.ValueOf(rep).Elem()), expectedReport(0, verLabel, btok, lc.tag), lc.exact)
						}
					}
				}
			})
		}
		r.Phase("score rendering sweep", func() { scoreSweep(r, langs[:3], &n) })
		r.Add("evaluations", n)
		r.Add("distinct_nontrivial", nv)
		r.Set("vectors", nv)
		r.Set("languages", int64(len(langs)))
		r.Sample(map[string]any{"vector": canonicalWritten(3, 2, "3.1", reportBackgrounds()[0].tok), "languages": "default, en, ja, und, fr (+ de, zh, en-US, ja-JP for every 8th vector)", "fields_compared": "every exported string field of EnvironmentalReport, TemporalReport, BaseReport"})
		r.Set("exhaustive", false)
		r.Set("deviation_bound", int64(dev))
		r.Set("rule", "every v3 vector that differs from one of 4 background vectors in at most 2 (quick) / 3 (thorough) metrics, decoded by the real decoders, reports built in {default, en, ja, und, fr, de, zh} (+ en-US, ja-JP checked for non-emptiness only); every exported string field of the three report structs (enumerated by reflection; an uncovered field is an infrastructure error) compared with the title/value-name function of exactly the like-named metric, the canonical vector and version of its level, the decimal rendering of the exact oracle score and the band of that level's score; plus a sweep that renders one vector for every attainable (level, score) pair; plus every list of 1-3 language options over {en, ja, fr, und} at every constructor (one language for the whole report, decided by the first or by the last option, uniformly); distinct by vector")
		r.Assume("the names.* functions are the oracle for display names (their own correctness is C18)")
	})
}
