package main

// First use in a process.  A table built on first use, a sync.Once triggered on one path only,
// a prototype copied before it was filled: such state is "cold" exactly once per process, and
// every in-process enumeration warms it in its own order.  Each entry below is therefore
// computed as the FIRST library call of its own fresh child process (about 10 ms each) and
// compared with what the long-running parent computes for the same entry.

import (
	"bytes"
	"fmt"
	"os"
	"os/exec"
	"reflect"
	"strconv"
	"strings"
	"sync"

	"cvssmc/internal/dump"
	"cvssmc/internal/ev"
	"cvssmc/internal/lib"
	"cvssmc/internal/spec"

	"golang.org/x/text/language"
)

// freshEntry computes one entry; used by the child (first call in its process) and by the parent.
func freshEntry(args []string) string {
	return safeRun(func() string {
		switch args[0] {
		case "decode": // decode <ver> <level> <vector>: every observable of the decoded object
			ver, _ := strconv.Atoi(args[1])
			level, _ := strconv.Atoi(args[2])
			o, err, pan := lib.DecodeNew(ver, level, args[3])
			if o == nil {
				return fmt.Sprintf("rejected %s panic=%q", lib.Class(err), pan)
			}
			res := observables(o)
			for lv := level - 1; lv >= 0; lv-- {
				res += "|" + lib.Observe(lib.Sub(o, lv)).String()
			}
			return res
		case "envfirst": // envfirst <ver> <level> <vector>: the top-level score before anything else
			ver, _ := strconv.Atoi(args[1])
			level, _ := strconv.Atoi(args[2])
			o, err, _ := lib.DecodeNew(ver, level, args[3])
			if o == nil {
				return "rejected " + lib.Class(err)
			}
			res := fmt.Sprint(lib.Score(o))
			for lv := level - 1; lv >= 0; lv-- {
				res += fmt.Sprint(" ", lib.Score(lib.Sub(o, lv)))
			}
			return res
		case "name": // name <index into nameTable>: all values in en, ja, fr
			i, _ := strconv.Atoi(args[1])
			e := nameTable[i]
			var b strings.Builder
			for _, l := range []language.Tag{language.Japanese, language.French, language.English} {
				if e.value != nil {
					for v := -1; v <= 7; v++ {
						b.WriteString(e.value(v, l) + "|")
					}
				} else {
					b.WriteString(headerFns[e.valueName](l) + "|")
				}
				b.WriteString(e.title(l) + "|")
			}
			return b.String()
		case "enum": // enum <ver> <metric>: parse every code and a few non-codes, print, weigh
			ver, _ := strconv.Atoi(args[1])
			en := lib.EnumOf(ver, args[2])
			var b strings.Builder
			for i := len(en.Codes) - 1; i >= 0; i-- {
				k := en.Parse(en.Codes[i].Code)
				fmt.Fprintf(&b, "%s=%d/%q ", en.Codes[i].Code, k, en.Str(k))
			}
			fmt.Fprintf(&b, "Q=%d x=%d", en.Parse("Q"), en.Parse("x"))
			for _, k := range en.Consts {
				m := en.Val(k).MethodByName("Value")
				if m.IsValid() && m.Type().NumIn() == 0 {
					fmt.Fprintf(&b, " w%d=%v", k, m.Call(nil)[0].Float())
				}
			}
			return b.String()
		case "report": // report <language>: an environmental report as the first report of the process
			bg := reportBackgrounds()[0]
			o, err, _ := lib.DecodeNew(3, 2, canonicalWritten(3, 2, bg.ver, bg.tok))
			if o == nil {
				return "rejected " + lib.Class(err)
			}
			return dump.Of(reportOf(o, language.MustParse(args[1])))
		}
		return "unknown fresh entry"
	})
}

func freshMain(args []string) { fmt.Print(hashStr(freshEntry(args))) }

// firstUse runs every entry in its own fresh process and compares with the parent's result.
func firstUse(r *ev.Run, entries [][]string) {
	exe, err := os.Executable()
	if err != nil {
		r.Infra("cannot locate own executable: " + err.Error())
		return
	}
	got := make([]string, len(entries))
	var mu sync.Mutex
	failed := 0
	safeParallel(r, len(entries), func(i int) {
		cmd := exec.Command(exe, append([]string{"fresh"}, entries[i]...)...)
		var out bytes.Buffer
		cmd.Stdout = &out
		if err := cmd.Run(); err != nil {
			mu.Lock()
			failed++
			mu.Unlock()
			return
		}
		got[i] = strings.TrimSpace(out.String())
	})
	if failed > 0 {
		r.Infra(fmt.Sprintf("%d fresh child processes failed", failed))
		return
	}
	for i, e := range entries {
		here := freshEntry(e)
		if hashStr(here) != got[i] {
			r.Violate(ev.Violation{Kind: "first-use-in-a-fresh-process-differs", Case: map[string]any{"entry": e, "how": "computed as the first library call of a fresh process (cvssmc fresh …) and again in the long-running check process"},
				Observed: "fresh process: hash " + got[i], Expected: here + "  (what the same call returns in a process that has used the library before)"})
		}
	}
	r.Add("first_use_entries_in_fresh_processes", int64(len(entries)))
	r.Add("evaluations", int64(len(entries)))
}

// rotations returns the vector with its metric tokens rotated by every k (each metric comes
// first once), plus the reversed order; v3 only (v2 vectors are order-sensitive).
func rotations(verLabel string, tok map[string]string, level int) []string {
	toks := tokensOf(3, level, tok)
	var out []string
	for k := 0; k < len(toks); k++ {
		rot := append(append([]string{}, toks[k:]...), toks[:k]...)
		out = append(out, "CVSS:"+verLabel+"/"+strings.Join(rot, "/"))
	}
	rev := make([]string, len(toks))
	for i, t := range toks {
		rev[len(toks)-1-i] = t
	}
	out = append(out, "CVSS:"+verLabel+"/"+strings.Join(rev, "/"))
	return out
}

// decodeFirstUseEntries: for every decoder level, a vector decoded with each metric coming first
// once, and scored top-level first.
func decodeFirstUseEntries(vers []int, levels []int) [][]string {
	var es [][]string
	for _, ver := range vers {
		for _, level := range levels {
			for bi, bg := range scoreBackgrounds(ver) {
				if bi > 1 {
					break
				}
				tok := map[string]string{}
				for _, m := range spec.UpTo(ver, level) {
					if c, ok := bg.tok[m.Name]; ok {
						tok[m.Name] = c
					}
				}
				if ver == 3 {
					for _, s := range rotations(bg.ver, tok, level) {
						es = append(es, []string{"decode", "3", fmt.Sprint(level), s})
					}
					es = append(es, []string{"envfirst", "3", fmt.Sprint(level), canonicalWritten(3, level, bg.ver, tok)})
				} else {
					s := canonicalWritten(2, level, "", tok)
					es = append(es, []string{"decode", "2", fmt.Sprint(level), s}, []string{"envfirst", "2", fmt.Sprint(level), s})
				}
			}
		}
	}
	return es
}

// firstUseScores: the decode / score entries of the decoders at and above the property's level.
func firstUseScores(r *ev.Run, ver, lv int) {
	levels := []int{}
	for l := lv; l < 3; l++ {
		levels = append(levels, l)
	}
	firstUse(r, decodeFirstUseEntries([]int{ver}, levels))
}

var _ = reflect.TypeOf
