package main

// First use in a process.  A table built on first use, a sync.Once triggered on one path only,
// a prototype copied before it was filled: such state is "cold" exactly once per process, and
// every in-process enumeration warms it in its own order.  Each entry below is therefore
// computed as the FIRST library call of its own fresh child process (about 10 ms each) and
// compared with what the long-running parent computes for the same entry.

import (
	"runtime"
	"time"

	"bytes"
	"fmt"
	v2 "github.com/goark/go-cvss/v2/metric"
	v3 "github.com/goark/go-cvss/v3/metric"
	"io"
	"os"
	"os/exec"
	"reflect"
	"strconv"
	"strings"
	"sync"

	"cvssmc/internal/dump"
	"cvssmc/internal/ev"
	"cvssmc/internal/lang"
	"cvssmc/internal/lib"
	"cvssmc/internal/spec"

	"golang.org/x/text/language"
)

// freshEntry computes one entry; used by the child (first call in its process) and by the parent.
func freshEntry(args []string) string {
	return safeRun(func() string {
		switch args[0] {
		case "decode": // decode <ver> <level> <vector>: every observable of the decoded object
			ver, _ := strconv.Atoi(args[1])
			level, _ := strconv.Atoi(args[2])
			o, err, pan := lib.DecodeNew(ver, level, args[3])
			if o == nil {
				return fmt.Sprintf("rejected %s panic=%q", lib.Class(err), pan)
			}
			res := observables(o)
			for lv := level - 1; lv >= 0; lv-- {
				res += "|" + lib.Observe(lib.Sub(o, lv)).String()
			}
			return res
		case "envfirst": // envfirst <ver> <level> <vector>: the top-level score before anything else
			ver, _ := strconv.Atoi(args[1])
			level, _ := strconv.Atoi(args[2])
			o, err, _ := lib.DecodeNew(ver, level, args[3])
			if o == nil {
				return "rejected " + lib.Class(err)
			}
			res := fmt.Sprint(lib.Score(o))
			for lv := level - 1; lv >= 0; lv-- {
				res += fmt.Sprint(" ", lib.Score(lib.Sub(o, lv)))
			}
			return res
		case "name": // name <index into nameTable>: all values in en, ja, fr
			i, _ := strconv.Atoi(args[1])
			e := nameTable[i]
			var b strings.Builder
			for _, l := range []language.Tag{language.Japanese, language.French, language.English} {
				if e.value != nil {
					for v := -1; v <= 7; v++ {
						b.WriteString(e.value(v, l) + "|")
					}
				} else {
					b.WriteString(headerFns[e.valueName](l) + "|")
				}
				b.WriteString(e.title(l) + "|")
			}
			return b.String()
		case "enum": // enum <ver> <metric>: parse every code and a few non-codes, print, weigh
			ver, _ := strconv.Atoi(args[1])
			en := lib.EnumOf(ver, args[2])
			var b strings.Builder
			for i := len(en.Codes) - 1; i >= 0; i-- {
				k := en.Parse(en.Codes[i].Code)
				fmt.Fprintf(&b, "%s=%d/%q ", en.Codes[i].Code, k, en.Str(k))
			}
			fmt.Fprintf(&b, "Q=%d x=%d", en.Parse("Q"), en.Parse("x"))
			for _, k := range en.Consts {
				m := en.Val(k).MethodByName("Value")
				if m.IsValid() && m.Type().NumIn() == 0 {
					fmt.Fprintf(&b, " w%d=%v", k, m.Call(nil)[0].Float())
				}
			}
			return b.String()
		case "fieldscore": // fieldscore <level> <bg>: a constructor result whose exported fields are assigned (nothing parsed in this process), scored top level first
			level, _ := strconv.Atoi(args[1])
			bi, _ := strconv.Atoi(args[2])
			bg := scoreBackgrounds(3)[bi]
			full := lang.Project(3, level, bg.tok)
			o := fieldBuilt(3, level, bg.ver, full)
			res := ""
			for lv := level; lv >= 0; lv-- {
				sv, _ := lib.Severity(lib.Sub(o, lv))
				res += fmt.Sprint(lib.Score(lib.Sub(o, lv)), " ", sv, " ")
			}
			return res
		case "weightsfirst": // weightsfirst <ver> <metric>: every weight (all argument combinations) BEFORE anything was parsed
			ver, _ := strconv.Atoi(args[1])
			en := lib.EnumOf(ver, args[2])
			var b strings.Builder
			ks := append([]int{en.Unknown}, en.Consts...)
			for _, mn := range []string{"Value", "IsChanged", "IsValid", "IsDefined", "IsUnknown", "String"} {
				for _, k := range ks {
					m := en.Val(k).MethodByName(mn)
					if !m.IsValid() {
						continue
					}
					var rec func(i int, argv []reflect.Value)
					rec = func(i int, argv []reflect.Value) {
						if i == m.Type().NumIn() {
							out := m.Call(argv)
							fmt.Fprintf(&b, "%s(%d", mn, k)
							for _, a := range argv {
								fmt.Fprintf(&b, ",%d", a.Int())
							}
							fmt.Fprintf(&b, ")=%v ", out[0].Interface())
							return
						}
						pt := m.Type().In(i)
						if pt.Kind() != reflect.Int {
							return
						}
						for x := 0; x <= 6; x++ {
							a := reflect.New(pt).Elem()
							a.SetInt(int64(x))
							rec(i+1, append(append([]reflect.Value{}, argv...), a))
						}
					}
					rec(0, nil)
				}
			}
			return b.String()
		case "goentry": // goentry: Decode as the ENTRY FUNCTION of a goroutine (go d.Decode(s)), for every decoder and several inputs
			// nothing can recover a panic in such a goroutine: the child dies, the parent sees no result
			inputs3 := []string{"CVSS:3.1/AV:N/AC:L/PR:N/UI:N/S:U/C:H/I:H/A:H", "CVSS:3.1/AV:N/AC:L/PR:N/UI:N/S:U/C:H/I:H/A:Q", "CVSS:4.0/AV:N", "", "CVSS:3.1/AV:N/AV:N", "CVSS:3.1/ZZ:N", "garbage"}
			inputs2 := []string{"AV:N/AC:L/Au:N/C:N/I:N/A:C", "AV:N/AC:L/Au:N/C:N/I:N/A:Q", "AC:L/AV:N/Au:N/C:N/I:N/A:C", "", "AV:N/AV:N", "ZZ:N", "garbage"}
			for _, in := range inputs3 {
				go v3.NewBase().Decode(in)
				go v3.NewTemporal().Decode(in)
				go v3.NewEnvironmental().Decode(in)
				go (*v3.Base)(nil).Decode(in)
				go (*v3.Environmental)(nil).Decode(in)
			}
			for _, in := range inputs2 {
				go v2.NewBase().Decode(in)
				go v2.NewTemporal().Decode(in)
				go v2.NewEnvironmental().Decode(in)
				go (*v2.Base)(nil).Decode(in)
				go (*v2.Environmental)(nil).Decode(in)
			}
			for i := 0; i < 200; i++ {
				runtime.Gosched()
				time.Sleep(time.Millisecond)
			}
			return "all goroutines returned"
		case "verdicts": // verdicts <ver> <level>: error classes of the decoder on valid and single-defect inputs
			ver, _ := strconv.Atoi(args[1])
			level, _ := strconv.Atoi(args[2])
			var b strings.Builder
			for _, seed := range seeds(ver) {
				toks := strings.Split(seed, "/")
				ins := []string{seed, seed + "/ZZ:N", seed + "/", "x" + seed}
				for i, tk := range toks {
					if ver == 3 && i == 0 {
						continue
					}
					c := strings.IndexByte(tk, ':')
					dup := append(append([]string{}, toks...), tk)                                      // the token twice
					dup2 := append(append([]string{}, toks...), tk[:c]+":"+"X")                         // the name twice, another value
					badv := append(append(append([]string{}, toks[:i]...), tk[:c]+":Q"), toks[i+1:]...) // invalid value
					drop := append(append([]string{}, toks[:i]...), toks[i+1:]...)                      // token dropped
					ins = append(ins, strings.Join(dup, "/"), strings.Join(dup2, "/"), strings.Join(badv, "/"), strings.Join(drop, "/"))
				}
				for _, in := range ins {
					o, err, pan := lib.DecodeNew(ver, level, in)
					fmt.Fprintf(&b, "%v %s %s;", o != nil, lib.Class(err), pan)
				}
			}
			return b.String()
		case "domain": // domain <ver> <level>: every observable over a slice of the level's domain that shows every value of every metric
			ver, _ := strconv.Atoi(args[1])
			level, _ := strconv.Atoi(args[2])
			return domainDigest(ver, level)
		case "namesall": // namesall <language>: all 52 name functions over all values
			l := language.Make(args[1])
			var b strings.Builder
			for _, e := range nameTable {
				if e.value != nil {
					for v := -2; v <= 9; v++ {
						b.WriteString(e.value(v, l) + "|")
					}
				} else {
					b.WriteString(headerFns[e.valueName](l) + "|")
				}
				b.WriteString(e.title(l) + "|")
			}
			return b.String()
		case "reports": // reports <language>: reports of all three levels for two vectors, and an export
			var b strings.Builder
			for _, bg := range reportBackgrounds()[:2] {
				o, err, _ := lib.DecodeNew(3, 2, canonicalWritten(3, 2, bg.ver, bg.tok))
				if o == nil {
					return "rejected " + lib.Class(err)
				}
				for lv := 2; lv >= 0; lv-- {
					rep := reportOf(lib.Sub(o, lv), language.Make(args[1]))
					b.WriteString(dump.Of(rep))
					if ex, ok := rep.(interface {
						ExportWithString(string) (io.Reader, error)
					}); ok {
						rd, err := ex.ExportWithString(histTemplate)
						if err == nil {
							x, _ := io.ReadAll(rd)
							b.Write(x)
						} else {
							b.WriteString(lib.Class(err))
						}
					}
				}
			}
			return b.String()
		case "report": // report <language>: an environmental report as the first report of the process
			bg := reportBackgrounds()[0]
			o, err, _ := lib.DecodeNew(3, 2, canonicalWritten(3, 2, bg.ver, bg.tok))
			if o == nil {
				return "rejected " + lib.Class(err)
			}
			return dump.Of(reportOf(o, language.MustParse(args[1])))
		}
		return "unknown fresh entry"
	})
}

// domainDigest: for decoder (ver, level), every base vector with a rotating choice of temporal and
// environmental values (every value of every optional metric occurs with many base vectors, the
// High requirement weights and both Modified Scope values among them): score, severity, validity
// and encoding at every level.
func domainDigest(ver, level int) string {
	var b strings.Builder
	bms := spec.At(ver, 0)
	nb := 1
	for _, m := range bms {
		nb *= len(m.Codes)
	}
	labels := []string{""}
	if ver == 3 {
		labels = []string{"3.0", "3.1"}
	}
	for bi := 0; bi < nb; bi++ {
		tok := map[string]string{}
		x := bi
		for _, m := range bms {
			tok[m.Name] = m.Codes[x%len(m.Codes)].Code
			x /= len(m.Codes)
		}
		for lv := 1; lv <= level; lv++ {
			for k, m := range spec.At(ver, lv) {
				tok[m.Name] = m.Codes[(bi/(k+1)+k)%len(m.Codes)].Code
			}
		}
		o, err, pan := lib.DecodeNew(ver, level, canonicalWritten(ver, level, labels[bi%len(labels)], tok))
		if o == nil {
			fmt.Fprintf(&b, "rejected %s %s;", lib.Class(err), pan)
			continue
		}
		for lv := level; lv >= 0; lv-- {
			ob := lib.Observe(lib.Sub(o, lv))
			b.WriteString(ob.String())
		}
		b.WriteByte(';')
	}
	return b.String()
}

// prologue runs a process history in front of a fresh entry (fresh @after=<name> ...).
func prologue(name string) {
	if name == "languages-first" {
		// one base vector decoded, then reports (and names) in 100 distinct languages, before any
		// temporal or environmental metric name was ever decoded in the process
		safeRun(func() string {
			o, _, _ := lib.DecodeNew(3, 0, seeds(3)[0])
			if o == nil {
				return ""
			}
			for i := 0; i < 100; i++ {
				t, err := language.Parse(fmt.Sprintf("%s-x-p%03d", []string{"de", "fr", "zh", "ko", "und"}[i%5], i))
				if err != nil {
					continue
				}
				reportOf(o, t)
				for _, e := range nameTable {
					e.title(t)
				}
			}
			return ""
		})
		return
	}
	safeRun(func() string {
		for _, ver := range []int{3, 2} {
			if (name == "v2-first" && ver == 3) || (name == "v3-first" && ver == 2) {
				continue
			}
			// everything a user of that version does: decode at every level, score (top level
			// first), severity, encode, every weight, (v3) reports in two languages and an export
			for _, bg := range scoreBackgrounds(ver) {
				for level := 2; level >= 0; level-- {
					tok := map[string]string{}
					for _, m := range spec.UpTo(ver, level) {
						if c, ok := bg.tok[m.Name]; ok {
							tok[m.Name] = c
						}
					}
					o, _, _ := lib.DecodeNew(ver, level, canonicalWritten(ver, level, bg.ver, tok))
					if o == nil {
						continue
					}
					for lv := level; lv >= 0; lv-- {
						lib.Observe(lib.Sub(o, lv))
					}
					if ver == 3 {
						for _, l := range []language.Tag{language.Japanese, language.English} {
							if ex, ok := reportOf(o, l).(interface {
								ExportWithString(string) (io.Reader, error)
							}); ok {
								if rd, err := ex.ExportWithString(histTemplate); err == nil {
									io.ReadAll(rd)
								}
							}
						}
					}
				}
			}
			for _, en := range lib.Enums(ver) {
				for _, c := range en.Codes {
					k := en.Parse(c.Code)
					en.Str(k)
					if m := en.Val(k).MethodByName("Value"); m.IsValid() && m.Type().NumIn() == 0 {
						m.Call(nil)
					}
				}
				en.Parse("Q")
			}
			domainDigest(ver, 2)
		}
		return ""
	})
}

func freshMain(args []string) {
	for len(args) > 0 && strings.HasPrefix(args[0], "@after=") {
		prologue(strings.TrimPrefix(args[0], "@after="))
		args = args[1:]
	}
	fmt.Print(hashStr(freshEntry(args)))
}

// variantEnvs: process environments under which every result must stay what it is (the library
// has no business reading any of them): locales that would select Japanese or another language,
// a time zone, a changed HOME and working directory.
var variantEnvs = [][]string{
	{"LANG=ja_JP.UTF-8", "LC_ALL=ja_JP.UTF-8", "LC_MESSAGES=ja_JP.UTF-8", "LANGUAGE=ja:en", "TZ=Asia/Tokyo"},
	{"LANG=ja", "LC_ALL=", "LANGUAGE="},
	{"LC_ALL=fr_FR.UTF-8", "LANG=fr_FR.UTF-8", "LANGUAGE=fr", "TZ=Europe/Paris", "HOME=/nonexistent", "TMPDIR=/nonexistent"},
	{"LC_MESSAGES=ja_JP.eucJP"},
	{"LANG=C", "LC_ALL=POSIX"},
	{"LANG=en_US.UTF-8", "LC_ALL=en_US.UTF-8"},
	{"CVSS_LANG=ja", "GOCVSS_LANG=ja", "GO_CVSS_LANGUAGE=ja", "ACCEPT_LANGUAGE=ja", "HTTP_ACCEPT_LANGUAGE=ja"},
}

// historyAndEnvironment: the entries, computed (a) as the first calls of a process whose only
// earlier history is the OTHER CVSS version's complete use (both orders), and (b) under every
// variant environment, must equal what the parent computes.  C15: "what a decode or query returns
// for a given vector does not depend on what the process decoded, scored or reported before".
func historyAndEnvironment(r *ev.Run, entries [][]string, prologues []string) {
	exe, err := os.Executable()
	if err != nil {
		r.Infra("cannot locate own executable: " + err.Error())
		return
	}
	type variant struct {
		what string
		args []string
		env  []string
	}
	var vs []variant
	for _, p := range prologues {
		vs = append(vs, variant{what: "after the process history '" + p + "'", args: []string{"@after=" + p}})
	}
	for _, e := range variantEnvs {
		vs = append(vs, variant{what: "under the environment " + strings.Join(e, " "), env: e})
	}
	if len(prologues) > 0 {
		vs = append(vs, variant{what: "after the process history '" + prologues[0] + "' under the environment " + strings.Join(variantEnvs[0], " "), args: []string{"@after=" + prologues[0]}, env: variantEnvs[0]})
	}
	type jobT struct{ e, v int }
	var jobs []jobT
	for ei := range entries {
		for vi := range vs {
			jobs = append(jobs, jobT{ei, vi})
		}
	}
	got := make([]string, len(jobs))
	var mu sync.Mutex
	failed := 0
	safeParallel(r, len(jobs), func(i int) {
		v := vs[jobs[i].v]
		cmd := exec.Command(exe, append(append([]string{"fresh"}, v.args...), entries[jobs[i].e]...)...)
		cmd.Env = append(os.Environ(), v.env...)
		var out bytes.Buffer
		cmd.Stdout = &out
		if err := cmd.Run(); err != nil {
			mu.Lock()
			failed++
			mu.Unlock()
			return
		}
		got[i] = strings.TrimSpace(out.String())
	})
	if failed > 0 {
		r.Infra(fmt.Sprintf("%d fresh child processes failed", failed))
		return
	}
	here := make([]string, len(entries))
	for i, e := range entries {
		here[i] = freshEntry(e)
	}
	for i, j := range jobs {
		if hashStr(here[j.e]) != got[i] {
			r.Violate(ev.Violation{Kind: "result-depends-on-process-history-or-environment", Case: map[string]any{"entry": entries[j.e], "variant": vs[j.v].what, "how": "cvssmc fresh " + strings.Join(append(append([]string{}, vs[j.v].args...), entries[j.e]...), " ") + " (with the named environment variables set) computes the entry in a fresh process; the check process computes it without that history and environment"},
				Observed: "hash " + got[i], Expected: "hash " + hashStr(here[j.e]) + " (what the check process computes)"})
		}
	}
	r.Add("history_and_environment_variant_runs", int64(len(jobs)))
	r.Add("evaluations", int64(len(jobs)))
}

// historyVariantsFor: the domain digests of decoder levels >= lv of one version.
func historyVariantsFor(r *ev.Run, ver, lv int) {
	var es [][]string
	for l := lv; l < 3; l++ {
		es = append(es, []string{"domain", fmt.Sprint(ver), fmt.Sprint(l)})
	}
	other := "v2-first"
	if ver == 2 {
		other = "v3-first"
	}
	historyAndEnvironment(r, es, []string{other, "both"})
}

// firstUse runs every entry in its own fresh process and compares with the parent's result.
func firstUse(r *ev.Run, entries [][]string) {
	exe, err := os.Executable()
	if err != nil {
		r.Infra("cannot locate own executable: " + err.Error())
		return
	}
	got := make([]string, len(entries))
	var mu sync.Mutex
	failed := 0
	safeParallel(r, len(entries), func(i int) {
		cmd := exec.Command(exe, append([]string{"fresh"}, entries[i]...)...)
		var out bytes.Buffer
		cmd.Stdout = &out
		if err := cmd.Run(); err != nil {
			mu.Lock()
			failed++
			mu.Unlock()
			return
		}
		got[i] = strings.TrimSpace(out.String())
	})
	if failed > 0 {
		r.Infra(fmt.Sprintf("%d fresh child processes failed", failed))
		return
	}
	for i, e := range entries {
		here := freshEntry(e)
		if hashStr(here) != got[i] {
			r.Violate(ev.Violation{Kind: "first-use-in-a-fresh-process-differs", Case: map[string]any{"entry": e, "how": "computed as the first library call of a fresh process (cvssmc fresh …) and again in the long-running check process"},
				Observed: "fresh process: hash " + got[i], Expected: here + "  (what the same call returns in a process that has used the library before)"})
		}
	}
	r.Add("first_use_entries_in_fresh_processes", int64(len(entries)))
	r.Add("evaluations", int64(len(entries)))
}

// rotations returns the vector with its metric tokens rotated by every k (each metric comes
// first once), plus the reversed order; v3 only (v2 vectors are order-sensitive).
func rotations(verLabel string, tok map[string]string, level int) []string {
	toks := tokensOf(3, level, tok)
	var out []string
	for k := 0; k < len(toks); k++ {
		rot := append(append([]string{}, toks[k:]...), toks[:k]...)
		out = append(out, "CVSS:"+verLabel+"/"+strings.Join(rot, "/"))
	}
	rev := make([]string, len(toks))
	for i, t := range toks {
		rev[len(toks)-1-i] = t
	}
	out = append(out, "CVSS:"+verLabel+"/"+strings.Join(rev, "/"))
	return out
}

// decodeFirstUseEntries: for every decoder level, a vector decoded with each metric coming first
// once, and scored top-level first.
func decodeFirstUseEntries(vers []int, levels []int) [][]string {
	var es [][]string
	for _, ver := range vers {
		for _, level := range levels {
			for bi, bg := range scoreBackgrounds(ver) {
				if bi > 1 {
					break
				}
				tok := map[string]string{}
				for _, m := range spec.UpTo(ver, level) {
					if c, ok := bg.tok[m.Name]; ok {
						tok[m.Name] = c
					}
				}
				if ver == 3 {
					for _, s := range rotations(bg.ver, tok, level) {
						es = append(es, []string{"decode", "3", fmt.Sprint(level), s})
					}
					es = append(es, []string{"envfirst", "3", fmt.Sprint(level), canonicalWritten(3, level, bg.ver, tok)}, []string{"fieldscore", fmt.Sprint(level), fmt.Sprint(bi)})
				} else {
					s := canonicalWritten(2, level, "", tok)
					es = append(es, []string{"decode", "2", fmt.Sprint(level), s}, []string{"envfirst", "2", fmt.Sprint(level), s})
				}
			}
		}
	}
	return es
}

// firstUseScores: the decode / score entries of the decoders at and above the property's level.
func firstUseScores(r *ev.Run, ver, lv int) {
	levels := []int{}
	for l := lv; l < 3; l++ {
		levels = append(levels, l)
	}
	firstUse(r, decodeFirstUseEntries([]int{ver}, levels))
}
