package main

import (
	"fmt"
	"runtime"
	"sync/atomic"
	"time"

	"cvssmc/internal/dump"
	"cvssmc/internal/ev"
	"cvssmc/internal/lang"
	"cvssmc/internal/lib"
	"cvssmc/internal/oracle"
	"cvssmc/internal/spec"

	v3metric "github.com/goark/go-cvss/v3/metric"
	"github.com/goark/go-cvss/v3/report"
	"golang.org/x/text/language"
)

// enumV3Base: all 2 x 2,592 base vectors through the three decoders.
func enumV3Base(r *ev.Run, P props, st *enumStats) {
	bases := allTok(3, 0)
	var n int64
	safeParallel(r, len(bases), func(i int) {
		for _, verLabel := range spec.V3Versions {
			for dec := 0; dec < 3; dec++ {
				c := &dcase{ver: 3, level: dec, tok: bases[i], verLabel: verLabel}
				c.s = canonicalWritten(3, 0, verLabel, bases[i])
				evalDecoded(r, P, st, c)
				atomic.AddInt64(&n, 1)
			}
		}
		if i == 1234 {
			r.Sample(canonicalWritten(3, 0, "3.1", bases[i]))
		}
	})
	r.Add("evaluations", n)
	r.Add("distinct_nontrivial", int64(2*len(bases)))
}

// v3EnvSlices: all 2,211,840 environmental combinations x 3 base+temporal vectors (thorough) or a
// thinned version (quick), and all base+temporal vectors x 20 environmental suffixes.
func v3EnvSuffixes() []map[string]string {
	return []map[string]string{
		{}, {"CR": "H"}, {"IR": "L"}, {"AR": "M"}, {"MAV": "P"}, {"MAC": "H"}, {"MPR": "N"}, {"MUI": "R"}, {"MS": "C"}, {"MS": "U"}, {"MC": "N"}, {"MI": "L"}, {"MA": "H"},
		{"CR": "X", "IR": "X", "AR": "X", "MAV": "X", "MAC": "X", "MPR": "X", "MUI": "X", "MS": "X", "MC": "X", "MI": "X", "MA": "X"},
		{"CR": "L", "IR": "M", "AR": "H", "MAV": "A", "MAC": "L", "MPR": "H", "MUI": "N", "MS": "C", "MC": "L", "MI": "H", "MA": "N"},
		{"MS": "C", "MPR": "L"}, {"MS": "U", "MPR": "H"}, {"MC": "H", "MI": "H", "MA": "H", "CR": "H", "IR": "H", "AR": "H"},
		{"MAV": "N", "MAC": "L", "MPR": "N", "MUI": "N"}, {"MC": "N", "MI": "N", "MA": "N"},
	}
}

func enumV3EnvProduct(r *ev.Run, P props, st *enumStats, every int) {
	ems := spec.At(3, 2)
	total := 1
	for _, m := range ems {
		total *= len(m.Codes)
	}
	envAt := func(i int) map[string]string {
		t := make(map[string]string, 24)
		for k := len(ems) - 1; k >= 0; k-- {
			n := len(ems[k].Codes)
			t[ems[k].Name] = ems[k].Codes[i%n].Code
			i /= n
		}
		return t
	}
	bts := []struct {
		ver string
		tok map[string]string
	}{
		{"3.1", map[string]string{"AV": "A", "AC": "H", "PR": "L", "UI": "N", "S": "C", "C": "L", "I": "H", "A": "L", "E": "P", "RL": "O", "RC": "U"}},
		{"3.0", map[string]string{"AV": "P", "AC": "L", "PR": "H", "UI": "R", "S": "U", "C": "H", "I": "N", "A": "N"}},
		{"3.0", map[string]string{"AV": "N", "AC": "L", "PR": "N", "UI": "N", "S": "C", "C": "N", "I": "L", "A": "H", "E": "X", "RL": "W", "RC": "X"}},
	}
	var n int64
	safeParallel(r, 2048, func(sh int) {
		var ln int64
		for i := sh; i < total; i += 2048 {
			if every > 1 && i%every != 0 {
				continue
			}
			e := envAt(i)
			for _, bt := range bts {
				tok := merge(bt.tok, e)
				c := &dcase{ver: 3, level: 2, tok: tok, verLabel: bt.ver}
				c.s = canonicalWritten(3, 2, bt.ver, tok)
				evalDecoded(r, P, st, c)
				ln++
			}
		}
		atomic.AddInt64(&n, ln)
	})
	r.Add("evaluations", n)
	r.Add("distinct_nontrivial", n)
	r.Add("v3_environmental_product_vectors", n)
}

// enumV3BaseSuffixes: every base vector x 2 temporal settings x all 20 environmental suffixes.
func enumV3BaseSuffixes(r *ev.Run, P props) {
	bases := allTok(3, 0)
	var n int64
	safeParallel(r, len(bases), func(i int) {
		for vi, verLabel := range spec.V3Versions {
			for _, e := range v3EnvSuffixes() {
				tok := merge(bases[i], e)
				if (i+vi)%2 == 0 {
					tok["E"], tok["RC"] = "F", "R"
				}
				c := &dcase{ver: 3, level: 2, tok: tok, verLabel: verLabel}
				c.s = canonicalWritten(3, 2, verLabel, tok)
				evalDecoded(r, P, nil, c)
				atomic.AddInt64(&n, 1)
			}
		}
	})
	r.Add("evaluations", n)
	r.Add("distinct_nontrivial", n)
}

// xVersusOmitted: "in v3 writing X explicitly is indistinguishable from omitting the metric", one
// metric at a time: for every base vector, both versions, five contexts of other optional metrics
// (none; MS:U; MS:C; all others defined; all others defined with the scope modified the other
// way) and every temporal/environmental metric m, the vector without m and the vector with m:X
// are decoded and every observable compared (round 4, C09-A-r4: a weight lookup that asks "was
// MPR written" instead of "is MPR defined", visible only for S:C with MS:U and PR above None).
func xVersusOmitted(r *ev.Run) {
	bases := allTok(3, 0)
	full := v3EnvSuffixes()[14]
	contexts := []map[string]string{{}, {"MS": "U"}, {"MS": "C"},
		merge(full, map[string]string{"E": "F", "RL": "W", "RC": "R"}),
		merge(full, map[string]string{"MS": "U", "MPR": "L", "E": "U"})}
	opt := append(append([]spec.Metric{}, spec.At(3, 1)...), spec.At(3, 2)...)
	var n int64
	safeParallel(r, len(bases), func(i int) {
		var ln int64
		for _, verLabel := range spec.V3Versions {
			for _, ctx := range contexts {
				for _, m := range opt {
					tok := merge(bases[i], ctx)
					delete(tok, m.Name)
					without := canonicalWritten(3, 2, verLabel, tok)
					tok[m.Name] = m.NDCode()
					with1 := canonicalWritten(3, 2, verLabel, tok)
					a, e1, _ := lib.DecodeNew(3, 2, without)
					b, e2, _ := lib.DecodeNew(3, 2, with1)
					ln += 2
					if e1 != nil || e2 != nil || a == nil || b == nil {
						r.Violate(ev.Violation{Kind: "valid-vector-not-decoded", Case: map[string]any{"cvss": 3, "vector": without, "twin": with1}, Observed: fmt.Sprint(e1, e2), Expected: "both accepted"})
						continue
					}
					if x, y := observables(a), observables(b); x != y {
						r.Violate(ev.Violation{Kind: "explicit-X-differs-from-omitted", Case: map[string]any{"cvss": 3, "decoder": "environmental", "vector": without, "twin": with1, "metric": m.Name}, Observed: x, Expected: y + "  (the same vector with " + m.Name + ":" + m.NDCode() + " written)"})
					}
				}
			}
		}
		atomic.AddInt64(&n, ln)
	})
	r.Add("evaluations", n)
	r.Add("explicit_X_versus_omitted_decodes", n)
}

// topFirstSweep: the lower-level scores asked AFTER every query on the higher-level views — the
// order in which a user who is interested in the environmental score first meets them.  v3: every
// base vector x both versions x 26 environmental suffixes (among them modified impact None with
// modified exploitability and scope that differ from the base metrics) x 2 temporal settings at
// the environmental decoder; v2: every base x temporal combination x 12 environmental groups.
// A higher-level query that works on the embedded object in place and forgets to restore it on
// one path is invisible to base-first orders (round 4, C01-B-r4, C02-B-r4).
func topFirstSweep(r *ev.Run, ver, scoreLevel int) {
	P := noScore
	P.scoreLevel, P.topFirst = scoreLevel, true
	var n int64
	if ver == 3 {
		bases := allTok(3, 0)
		suffixes := append(v3EnvSuffixes(),
			map[string]string{"MC": "N", "MI": "N", "MA": "N", "MAV": "P", "MAC": "H", "MPR": "H", "MUI": "R", "MS": "C"},
			map[string]string{"MC": "N", "MI": "N", "MA": "N", "MAV": "N", "MAC": "L", "MPR": "N", "MUI": "N", "MS": "U"},
			map[string]string{"MC": "N", "MI": "N", "MA": "N", "MAV": "L", "MPR": "L"},
			map[string]string{"MC": "H", "MI": "H", "MA": "H", "MAV": "A", "MAC": "H", "MPR": "L", "MUI": "R", "MS": "U", "CR": "L", "IR": "L", "AR": "L"},
			map[string]string{"MAV": "P", "MAC": "H", "MPR": "H", "MUI": "R", "MS": "C", "CR": "H"},
			map[string]string{"MAV": "N", "MAC": "L", "MPR": "N", "MUI": "N", "MS": "U", "MC": "L", "MI": "L", "MA": "L"})
		safeParallel(r, len(bases), func(i int) {
			var ln int64
			for _, verLabel := range spec.V3Versions {
				for si, e := range suffixes {
					tok := merge(bases[i], e)
					if (i+si)%2 == 0 {
						tok["E"], tok["RL"], tok["RC"] = "P", "T", "U"
					}
					c := &dcase{ver: 3, level: 2, tok: tok, verLabel: verLabel}
					c.s = canonicalWritten(3, 2, verLabel, tok)
					evalDecoded(r, P, nil, c)
					ln++
				}
			}
			atomic.AddInt64(&n, ln)
		})
	} else {
		bases, temps := allTok(2, 0), v2TempGroups()
		groups := v2EnvGroups()
		safeParallel(r, len(bases), func(i int) {
			var ln int64
			for ti, t := range temps {
				for k := 0; k < 12; k++ {
					g := groups[1+(k*163+ti*7+i)%(len(groups)-1)]
					tok := merge(merge(bases[i], t.tok), g.tok)
					c := &dcase{ver: 2, level: 2, tok: tok}
					c.s = canonicalWritten(2, 2, "", tok)
					evalDecoded(r, P, nil, c)
					ln++
				}
			}
			atomic.AddInt64(&n, ln)
		})
	}
	r.Add("evaluations", n)
	r.Add("lower_level_scores_asked_after_the_higher_levels", n)
}

// viewsAfterInstalments: the library's decoders accept a vector in instalments (a second Decode
// on the same object that supplies only metrics it does not hold yet).  Decode the base part,
// query every view, decode the rest, and compare the views with independent lower-level decodes
// of the combined vector.
func viewsAfterInstalments(r *ev.Run) {
	var n int64
	for _, ver := range []int{3, 2} {
		for _, bg := range scoreBackgrounds(ver) {
			for level := 1; level < 3; level++ {
				full := lang.Project(ver, level, bg.tok)
				for split := 0; split < level; split++ {
					first := lang.Project(ver, split, full)
					rest := map[string]string{}
					for k, v := range full {
						if _, ok := first[k]; !ok {
							rest[k] = v
						}
					}
					d := lib.New(ver, level)
					s1, s2 := canonicalWritten(ver, level, bg.ver, first), canonicalWritten(ver, level, bg.ver, rest)
					lib.Decode(d, s1)
					for q := 0; q <= level; q++ {
						lib.Observe(lib.Sub(d, q))
					}
					obj, err, pan := lib.Decode(d, s2)
					n++
					if pan != "" {
						r.Violate(ev.Violation{Kind: "second-decode-panics", Case: map[string]any{"cvss": ver, "decoder": spec.LevelNames[level], "first_input": s1, "second_input_on_the_same_decoder": s2}, Observed: pan, Expected: "no panic"})
						continue
					}
					if err != nil || obj == nil {
						continue // not accepted in instalments: nothing to compare
					}
					for lv := 0; lv < level; lv++ {
						ps := canonicalWritten(ver, lv, bg.ver, lang.Project(ver, lv, full))
						ind, ierr, _ := lib.DecodeNew(ver, lv, ps)
						if ierr != nil || ind == nil {
							continue
						}
						if a, b := lib.Observe(lib.Sub(obj, lv)), lib.Observe(ind); a != b {
							r.Violate(ev.Violation{Kind: "view-differs-after-instalment-decode", Case: map[string]any{"cvss": ver, "decoder": spec.LevelNames[level], "first_input": s1, "then_every_view_queried_then_second_input_on_the_same_decoder": s2, "view": spec.LevelNames[lv], "projection": ps},
								Observed: a.String(), Expected: b.String() + "  (independent decode of the projection)"})
						}
					}
				}
			}
		}
	}
	r.Add("instalment_decodes", n)
	viewsTakenBeforeDecode(r)
}

// viewsOfTwin: two objects X and Y decoded from the same vector; X is then used further — every
// query, a second Decode (an instalment under the other version label, a rejected vector under
// the other version label, the same vector again), an assignment to one of its base fields, a
// report — and the views of Y must still equal independent lower-level decodes of the vector:
// what X's owner does is no business of Y (round 4, C14-A-r4: embedded base objects interned
// process-wide by their metric values).
// viewsOutliveParent: X is decoded at a higher level, only its lower-level views are kept, X is
// dropped; then the garbage collector runs (twice, finalizers get their turn), further vectors are
// decoded through constructors and nil receivers, the collector runs again — and the kept views
// must still equal independent lower-level decodes (round 6, C02-A-r6: whole object chains
// recycled by a finalizer on the outer object while a caller still holds an inner one).  Garbage
// collection is an environment event the library cannot see; the harness owns it.
func viewsOutliveParent(r *ev.Run) {
	var n int64
	collect := func() {
		for i := 0; i < 3; i++ {
			runtime.GC()
			runtime.Gosched()
			time.Sleep(2 * time.Millisecond) // let the finalizer goroutine run; not an oracle
		}
	}
	for _, ver := range []int{3, 2} {
		bgs := scoreBackgrounds(ver)
		for bi, bg := range bgs {
			for level := 1; level < 3; level++ {
				s := canonicalWritten(ver, level, bg.ver, lang.Project(ver, level, bg.tok))
				type kept struct {
					lv   int
					view any
					want string
				}
				var ks []kept
				func() {
					x, _, _ := lib.DecodeNew(ver, level, s)
					if x == nil {
						return
					}
					lib.Observe(x)
					for lv := level - 1; lv >= 0; lv-- {
						ps := canonicalWritten(ver, lv, bg.ver, lang.Project(ver, lv, bg.tok))
						ind, _, _ := lib.DecodeNew(ver, lv, ps)
						if ind == nil {
							continue
						}
						ks = append(ks, kept{lv, lib.Sub(x, lv), lib.Observe(ind).String()})
					}
				}()
				collect()
				for k := 0; k < 40; k++ {
					ob := bgs[(bi+1+k)%len(bgs)]
					for l2 := 2; l2 >= 0; l2-- {
						s2 := canonicalWritten(ver, l2, ob.ver, lang.Project(ver, l2, ob.tok))
						lib.DecodeNew(ver, l2, s2)
						lib.Decode(lib.Nil(ver, l2), s2)
					}
					if k == 20 {
						collect()
					}
				}
				collect()
				for _, kp := range ks {
					n++
					if got := lib.Observe(kp.view).String(); got != kp.want {
						r.Violate(ev.Violation{Kind: "kept-view-changes-after-its-parent-was-collected", Case: map[string]any{"cvss": ver, "decoder": spec.LevelNames[level], "vector": s, "view": spec.LevelNames[kp.lv],
							"history": []string{"x := Decode(" + s + ")", "v := the " + spec.LevelNames[kp.lv] + " view of x; x dropped", "runtime.GC() x3", "40 other vectors decoded at every level through constructors and nil receivers, runtime.GC() in between", "queries on v"}},
							Observed: got, Expected: kp.want + "  (an independent decode of the projected vector)"})
					}
				}
			}
		}
	}
	r.Add("views_kept_across_garbage_collections", n)
	r.Add("evaluations", n)
}

func viewsOfTwin(r *ev.Run) {
	var n int64
	for _, ver := range []int{3, 2} {
		for _, bg := range scoreBackgrounds(ver) {
			for level := 1; level < 3; level++ {
				full := lang.Project(ver, level, bg.tok)
				s := canonicalWritten(ver, level, bg.ver, full)
				other := "3.0"
				if bg.ver == "3.0" {
					other = "3.1"
				}
				uses := []struct {
					name string
					do   func(x any)
				}{
					{"every query on X", func(x any) {
						for q := level; q >= 0; q-- {
							lib.Observe(lib.Sub(x, q))
						}
					}},
					{"X.Decode of the same vector again", func(x any) { lib.Decode(x, s) }},
					{"a base field of X assigned another value", func(x any) {
						m := spec.At(ver, 0)[3]
						en := lib.EnumOf(ver, m.Name)
						cur, _ := lib.Field(x, m.Name)
						for _, k := range en.Consts {
							if k != cur {
								lib.SetField(x, m.Name, k)
								break
							}
						}
					}},
					{"the base score of X asked after one of its base fields was set to its unknown value", func(x any) {
						lib.SetField(x, spec.At(ver, 0)[0].Name, lib.EnumOf(ver, spec.At(ver, 0)[0].Name).Unknown)
						lib.Observe(lib.Sub(x, 0))
					}},
				}
				if ver == 3 {
					uses = append(uses,
						struct {
							name string
							do   func(x any)
						}{"X.Decode(CVSS:" + other + "/AV:N), rejected", func(x any) { lib.Decode(x, "CVSS:"+other+"/AV:N") }},
						struct {
							name string
							do   func(x any)
						}{"X.Decode(CVSS:" + other + "/E:F/RL:O/RC:C)", func(x any) { lib.Decode(x, "CVSS:"+other+"/E:F/RL:O/RC:C") }},
						struct {
							name string
							do   func(x any)
						}{"the version label of X assigned " + other, func(x any) {
							v := int(v3metric.V3_0)
							if other == "3.1" {
								v = int(v3metric.V3_1)
							}
							lib.SetV3Ver(x, v)
						}},
						struct {
							name string
							do   func(x any)
						}{"reports built from X", func(x any) { reportScoreText(x, level); reportScoreText(x, 0) }})
				}
				for _, order := range []string{"X decoded first", "Y decoded first"} {
					for _, u := range uses {
						var x, y any
						if order == "X decoded first" {
							x, _, _ = lib.DecodeNew(ver, level, s)
							y, _, _ = lib.DecodeNew(ver, level, s)
						} else {
							y, _, _ = lib.DecodeNew(ver, level, s)
							x, _, _ = lib.DecodeNew(ver, level, s)
						}
						if x == nil || y == nil {
							continue
						}
						func() {
							defer func() { recover() }() // what X does to itself is judged elsewhere
							u.do(x)
						}()
						n++
						// and a third object decoded afterwards
						z, _, _ := lib.DecodeNew(ver, level, s)
						for name, o := range map[string]any{"Y": y, "Z (decoded afterwards)": z} {
							if o == nil {
								continue
							}
							for lv := 0; lv <= level; lv++ {
								ps := canonicalWritten(ver, lv, bg.ver, lang.Project(ver, lv, full))
								ind, ierr, _ := lib.DecodeNew(ver, lv, ps)
								if ierr != nil || ind == nil {
									continue
								}
								if a, b := lib.Observe(lib.Sub(o, lv)), lib.Observe(ind); a != b {
									r.Violate(ev.Violation{Kind: "view-of-another-object-changed", Case: map[string]any{"cvss": ver, "decoder": spec.LevelNames[level], "vector": s, "history": []string{order + ", both from the same vector", u.name, "views of " + name}, "view": spec.LevelNames[lv],
										"note": "the histories of this phase run one after the other in one process (queries first, then re-decodes, then assignments), so state kept outside the objects may stem from an earlier history on the same vector"},
										Observed: a.String(), Expected: b.String() + "  (independent decode of " + ps + ")"})
								}
							}
						}
					}
				}
			}
		}
	}
	n += twinV2Groups(r)
	r.Add("twin_object_histories", n)
}

// twinV2Groups: v2 objects with and without the optional groups next to each other.  X decodes a
// vector that lacks a group and is then offered that group alone (the pinned decoders refuse the
// continuation); objects decoded before and after from vectors with every combination of groups
// must still answer like independent lower-level decodes (round 5, C05-B-r5: the private tables
// of seen names replaced by shared package-level ones after a successful decode).
func twinV2Groups(r *ev.Run) int64 {
	var n int64
	base := "AV:L/AC:H/Au:N/C:C/I:C/A:C"
	tg, eg := "E:F/RL:OF/RC:C", "CDP:H/TD:H/CR:M/IR:M/AR:M"
	type vv struct {
		level int
		s     string
	}
	all := []vv{{2, base}, {2, base + "/" + tg}, {2, base + "/" + eg}, {2, base + "/" + tg + "/" + eg}, {1, base}, {1, base + "/" + tg}, {0, base}}
	check := func(o any, v vv, hist []string) {
		tok := lang.Classify(2, v.level, v.s).Tokens
		for lv := 0; lv <= v.level; lv++ {
			ps := canonicalWritten(2, lv, "", lang.Project(2, lv, tok))
			ind, ierr, _ := lib.DecodeNew(2, lv, ps)
			if ierr != nil || ind == nil {
				continue
			}
			if a, b := lib.Observe(lib.Sub(o, lv)), lib.Observe(ind); a != b {
				r.Violate(ev.Violation{Kind: "view-of-another-object-changed", Case: map[string]any{"cvss": 2, "decoder": spec.LevelNames[v.level], "vector": v.s, "history": hist, "view": spec.LevelNames[lv]},
					Observed: a.String(), Expected: b.String() + "  (independent decode of " + ps + ")"})
				return
			}
		}
	}
	for _, xv := range all {
		for _, piece := range []string{tg, eg, tg + "/" + eg, "E:F", "CDP:H/TD:H"} {
			var before []any
			for _, yv := range all {
				o, _, _ := lib.DecodeNew(2, yv.level, yv.s)
				before = append(before, o)
			}
			x, _, _ := lib.DecodeNew(2, xv.level, xv.s)
			if x == nil {
				continue
			}
			lib.Decode(x, piece)
			lib.Observe(x)
			n++
			hist := []string{"objects Y decoded from every combination of groups", "X := " + spec.LevelNames[xv.level] + " decoder, Decode(" + xv.s + ")", "X.Decode(" + piece + ")"}
			for i, yv := range all {
				if before[i] != nil {
					check(before[i], yv, append(append([]string{}, hist...), "views of the Y decoded from "+yv.s))
				}
				if z, _, _ := lib.DecodeNew(2, yv.level, yv.s); z != nil {
					check(z, yv, append(append([]string{}, hist...), "views of a Z decoded afterwards from "+yv.s))
				}
			}
		}
	}
	return n
}

// viewsTakenBeforeDecode: (i) the views are taken from the constructor result, then the owner
// decodes the vector: the views taken earlier must show the decoded vector like independent
// lower-level decodes do; (ii) optional fields are assigned before Decode and the vector spells
// those metrics out as Not Defined; (iii) v3: the embedded reports of a report equal the reports
// built from independent lower-level decodes.
func viewsTakenBeforeDecode(r *ev.Run) {
	var n int64
	for _, ver := range []int{3, 2} {
		for _, bg := range scoreBackgrounds(ver) {
			for level := 1; level < 3; level++ {
				full := lang.Project(ver, level, bg.tok)
				s := canonicalWritten(ver, level, bg.ver, full)
				// (i)
				d := lib.New(ver, level)
				var early []any
				for lv := 0; lv < level; lv++ {
					early = append(early, lib.Sub(d, lv))
				}
				obj, err, _ := lib.Decode(d, s)
				n++
				if err == nil && obj != nil {
					for lv := 0; lv < level; lv++ {
						ps := canonicalWritten(ver, lv, bg.ver, lang.Project(ver, lv, full))
						ind, ierr, _ := lib.DecodeNew(ver, lv, ps)
						if ierr != nil || ind == nil {
							continue
						}
						if a, b := lib.Observe(early[lv]), lib.Observe(ind); a != b {
							r.Violate(ev.Violation{Kind: "view-taken-before-decode-differs", Case: map[string]any{"cvss": ver, "decoder": spec.LevelNames[level], "history": []string{"d := constructor result", "v := the " + spec.LevelNames[lv] + " view of d", "d.Decode(" + s + ")", "query v"}, "projection": ps},
								Observed: a.String(), Expected: b.String() + "  (independent decode of the projection)"})
						}
					}
				}
				// (i') the same with rejected decodes between taking the views and the successful one
				// (round 5, C02-A-r5 / C14-A-r5: a Decode that works on a copy of the receiver and
				// swaps the embedded pointers on commit or roll-back orphans views taken earlier)
				for _, rej := range []string{"CVSS:2.0/AV:N/AC:L", "", "garbage", "CVSS:3.1", "CVSS:3.1/ZZ", "AV:N/AC:L", "CVSS:9/"} {
					d := lib.New(ver, level)
					var early []any
					for lv := 0; lv < level; lv++ {
						early = append(early, lib.Sub(d, lv))
					}
					if o, _, _ := lib.Decode(d, rej); o != nil {
						continue
					}
					obj, err, _ := lib.Decode(d, s)
					n++
					if err != nil || obj == nil {
						continue // the rejected input left something behind that makes the vector a repeat: nothing to compare
					}
					for lv := 0; lv < level; lv++ {
						ps := canonicalWritten(ver, lv, bg.ver, lang.Project(ver, lv, full))
						ind, ierr, _ := lib.DecodeNew(ver, lv, ps)
						if ierr != nil || ind == nil {
							continue
						}
						if a, b := lib.Observe(early[lv]), lib.Observe(ind); a != b {
							r.Violate(ev.Violation{Kind: "view-taken-before-decode-differs", Case: map[string]any{"cvss": ver, "decoder": spec.LevelNames[level], "history": []string{"d := constructor result", "v := the " + spec.LevelNames[lv] + " view of d", "d.Decode(" + rej + "), rejected", "d.Decode(" + s + ")", "query v"}, "projection": ps},
								Observed: a.String(), Expected: b.String() + "  (independent decode of the projection)"})
						}
						if lib.Sub(obj, lv) != early[lv] {
							r.Violate(ev.Violation{Kind: "accessor-not-stable", Case: map[string]any{"cvss": ver, "decoder": spec.LevelNames[level], "history": []string{"v := the " + spec.LevelNames[lv] + " view of the constructor result", "Decode(" + rej + "), rejected", "Decode(" + s + ")", "the accessor again"}}, Observed: "another pointer", Expected: "the embedded object the accessor returned before"})
						}
					}
				}
				// (ii)
				for _, m := range spec.UpTo(ver, level) {
					if m.Level == 0 || (ver == 2 && !lang.GroupPresent(full, m.Level)) {
						continue
					}
					en := lib.EnumOf(ver, m.Name)
					d := lib.New(ver, level)
					lib.SetField(d, m.Name, en.Consts[len(en.Consts)-1-boolInt(m.Codes[len(m.Codes)-1].ND)])
					t := copyTok(full)
					t[m.Name] = m.NDCode()
					st := canonicalWritten(ver, level, bg.ver, t)
					obj, err, _ := lib.Decode(d, st)
					n++
					if err != nil || obj == nil {
						continue
					}
					c := &dcase{ver: ver, level: level, s: st, tok: t, verLabel: bg.ver}
					c2 := *c
					checkViews(r, &c2, obj)
				}
				// (iii)
				if ver == 3 {
					if o, err, _ := lib.DecodeNew(3, level, s); err == nil && o != nil {
						outer := reportOf(o, language.English)
						for lv := 0; lv < level; lv++ {
							ps := canonicalWritten(3, lv, bg.ver, lang.Project(3, lv, full))
							ind, ierr, _ := lib.DecodeNew(3, lv, ps)
							if ierr != nil || ind == nil {
								continue
							}
							n++
							if a, b := dump.Of(embeddedReport(outer, level-lv)), dump.Of(reportOf(ind, language.English)); a != b {
								r.Violate(ev.Violation{Kind: "embedded-report-differs-from-lower-level-report", Case: map[string]any{"vector": s, "report_level": spec.LevelNames[level], "embedded": spec.LevelNames[lv], "projection": ps}, Observed: a, Expected: b})
							}
						}
					}
				}
			}
		}
	}
	r.Add("view_histories", n)
}

func boolInt(b bool) int {
	if b {
		return 1
	}
	return 0
}

// embeddedReport descends `steps` levels into the embedded reports.
func embeddedReport(rep any, steps int) any {
	for ; steps > 0; steps-- {
		switch x := rep.(type) {
		case *report.EnvironmentalReport:
			rep = x.TemporalReport
		case *report.TemporalReport:
			rep = x.BaseReport
		}
	}
	return rep
}

func init() {
	// C06: grid and bands at every level of both versions
	register("C06", "exploration", func(r *ev.Run, thorough bool) {
		P := noScore
		P.grid = true
		st3, st2 := newStats(), newStats()
		enumV3Base(r, P, st3)
		enumV3Temporal(r, P, st3, []int{1, 2}, []map[string]string{{}})
		envEffective(r, P, st3, true)
		if thorough {
			envLattices(r, P, st3, 1)
		} else {
			envLattices(r, P, st3, 16)
		}
		enumV2Temporal(r, P, st2, []int{0, 1, 2}, []map[string]string{{}})
		if thorough {
			envFull(r, P, [][3]int{{0, 0, 0}}, 1)
			envFullV2(r, false, true, false, 1, st2)
		} else {
			envFull(r, P, [][3]int{{3, 2, 1}}, 193)
			envFullV2(r, false, true, false, 1, st2)
		}
		r.Phase("first use in fresh processes", func() {
			firstUseScores(r, 3, 0)
			historyVariantsFor(r, 3, 0)
			firstUseScores(r, 2, 0)
			historyVariantsFor(r, 2, 0)
		})
		r.Phase("score and severity sequences", func() {
			for lv := 0; lv < 3; lv++ {
				scoreSequences(r, 3, lv)
				scoreSequences(r, 2, lv)
			}
		})
		st3.report(r, 3)
		st2.report(r, 2)
		r.Set("exhaustive", thorough)
		r.Set("rule", "the enumerations of C01-C05 (v3: all base, all base x temporal, every effective environmental combination x temporal, the fallback lattices, the environmental product [thorough: complete, quick: thinned]; v2: all 73,629 base/temporal vectors and the complete 141M environmental domain) with the oracle 'score is k/10 in [0,10], prints with <=1 decimal, Severity() is the band of that score at the same level'; v2 environmental cases in the specification-negative region are exempt from sign and band; distinct by metric values")
		r.Assume("band table transcribed from the property text; the exempt region is decided by the exact oracle (adjusted base equation negative)")
	})

	// C13: neutrality and monotonicity
	register("C13", "exploration", func(r *ev.Run, thorough bool) {
		P := noScore
		P.neutral = true
		st3, st2 := newStats(), newStats()
		enumV3Temporal(r, P, st3, []int{1, 2}, []map[string]string{{}, {"CR": "X", "IR": "X", "AR": "X", "MAV": "X", "MAC": "X", "MPR": "X", "MUI": "X", "MS": "X", "MC": "X", "MI": "X", "MA": "X"}})
		enumV2Temporal(r, P, st2, []int{1, 2}, []map[string]string{{}, {"CDP": "H", "TD": "N", "CR": "H", "IR": "H", "AR": "H"}, {"CDP": "ND", "TD": "ND", "CR": "ND", "IR": "ND", "AR": "ND"}})
		envFullV2(r, false, false, true, 1, nil)
		r.Phase("first use in fresh processes", func() {
			firstUseScores(r, 3, 1)
			historyVariantsFor(r, 3, 1)
			firstUseScores(r, 2, 1)
			historyVariantsFor(r, 2, 1)
		})
		r.Phase("score sequences", func() {
			for _, lv := range []int{1, 2} {
				scoreSequences(r, 3, lv)
				scoreSequences(r, 2, lv)
			}
		})
		r.Set("exhaustive", true)
		r.Set("rule", "complete v3 domain 2 x 2,592 x 100 at the temporal decoder and at the environmental decoder with the environmental metrics omitted and all written as X; complete v2 73,629 base/temporal domain at both decoders plus the complete 141M v2 environmental domain for TD:N => 0 and group absent => temporal score; relations: temporal(all ND)==base, environmental(all ND)==temporal except v3.1 with S:C, TD:N => 0, temporal<=base; distinct by token set")
	})

	// C14: views agree with independent lower-level decodes
	register("C14", "exploration", func(r *ev.Run, thorough bool) {
		P := noScore
		P.views = true
		if thorough {
			enumV3Temporal(r, P, nil, []int{1, 2}, v3EnvSuffixes())
		} else {
			enumV3Temporal(r, P, nil, []int{1, 2}, v3EnvSuffixes()[:1])
			enumV3BaseSuffixes(r, P)
		}
		if thorough {
			enumV3EnvProduct(r, P, nil, 1)
		} else {
			enumV3EnvProduct(r, P, nil, 37)
		}
		enumV2Temporal(r, P, nil, []int{1, 2}, []map[string]string{{}, {"CDP": "LM", "TD": "M", "CR": "H", "IR": "L", "AR": "ND"}, {"CDP": "N", "TD": "N", "CR": "L", "IR": "L", "AR": "L"}, {"CDP": "H", "TD": "H", "CR": "M", "IR": "ND", "AR": "M"},
			// requirements that leave the impact as it is (round 6, C14-B-r6: a memo of the base equation
			// keyed by the impact in hundredths, shared by Base.Score and the environmental equation)
			{"CDP": "ND", "TD": "ND", "CR": "ND", "IR": "ND", "AR": "ND"}, {"CDP": "N", "TD": "H", "CR": "M", "IR": "M", "AR": "M"}, {"CDP": "N", "TD": "ND", "CR": "H", "IR": "H", "AR": "H"}})
		if thorough {
			dpathSliceV2(r, P, nil, func(gi int) bool { return gi%4 == 0 })
		} else {
			dpathSliceV2(r, P, nil, func(gi int) bool { return gi%240 == 0 })
		}
		r.Phase("views after instalment decoding", func() { viewsAfterInstalments(r) })
		r.Phase("views of a twin object", func() { viewsOfTwin(r) })
		r.Phase("views that outlive their parent object", func() { viewsOutliveParent(r) })
		r.Set("exhaustive", false)
		r.Set("complete_subdomains", "v3 base x temporal (518,400) at the temporal decoder and at the environmental decoder x 20 environmental suffixes; v2 base x temporal (73,629) at both decoders x 3 suffixes; thorough adds all 2,211,840 v3 environmental combinations x 3 base+temporal vectors and a quarter of the v2 141M domain")
		r.Set("rule", "for every vector: the object returned by BaseMetrics()/TemporalMetrics() is pointer-identical on repeated calls and to the embedded field, and its score, severity, validity, encoding, string and complete reflective state equal those of an independent lower-level decode of the projected vector; distinct by token set")
	})

	// C01 (ENUM part; the GRAPH part is added in graph.go)
	register("C01", "model_checking", func(r *ev.Run, thorough bool) {
		P := noScore
		P.scoreLevel = 0
		st := newStats()
		enumV3Base(r, P, st)
		r.Phase("score sequences", func() { scoreSequences(r, 3, 0) })
		r.Phase("higher levels queried first", func() { topFirstSweep(r, 3, 0) })
		r.Phase("first use in fresh processes", func() { firstUseScores(r, 3, 0); historyVariantsFor(r, 3, 0) })
		graphC01(r, thorough)
		st.report(r, 3)
		r.Set("oracle_ambiguous_roundings", int64(oracle.GetV3().Ambiguous))
		setExhaustiveUnlessCapped(r)
		r.Assume("exact oracle: math/big.Rat, FIRST v3.0/v3.1 base equations, weights transcribed in internal/spec; ceiling and Appendix-A round-up agree on all 5,184 cases")
	})
}
