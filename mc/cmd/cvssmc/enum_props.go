package main

import (
	"sync/atomic"

	"cvssmc/internal/dump"
	"cvssmc/internal/ev"
	"cvssmc/internal/lang"
	"cvssmc/internal/lib"
	"cvssmc/internal/oracle"
	"cvssmc/internal/spec"

	"github.com/goark/go-cvss/v3/report"
	"golang.org/x/text/language"
)

// enumV3Base: all 2 x 2,592 base vectors through the three decoders.
func enumV3Base(r *ev.Run, P props, st *enumStats) {
	bases := allTok(3, 0)
	var n int64
	safeParallel(r, len(bases), func(i int) {
		for _, verLabel := range spec.V3Versions {
			for dec := 0; dec < 3; dec++ {
				c := &dcase{ver: 3, level: dec, tok: bases[i], verLabel: verLabel}
				c.s = canonicalWritten(3, 0, verLabel, bases[i])
				evalDecoded(r, P, st, c)
				atomic.AddInt64(&n, 1)
			}
		}
		if i == 1234 {
			r.Sample(canonicalWritten(3, 0, "3.1", bases[i]))
		}
	})
	r.Add("evaluations", n)
	r.Add("distinct_nontrivial", int64(2*len(bases)))
}

// v3EnvSlices: all 2,211,840 environmental combinations x 3 base+temporal vectors (thorough) or a
// thinned version (quick), and all base+temporal vectors x 20 environmental suffixes.
func v3EnvSuffixes() []map[string]string {
	return []map[string]string{
		{}, {"CR": "H"}, {"IR": "L"}, {"AR": "M"}, {"MAV": "P"}, {"MAC": "H"}, {"MPR": "N"}, {"MUI": "R"}, {"MS": "C"}, {"MS": "U"}, {"MC": "N"}, {"MI": "L"}, {"MA": "H"},
		{"CR": "X", "IR": "X", "AR": "X", "MAV": "X", "MAC": "X", "MPR": "X", "MUI": "X", "MS": "X", "MC": "X", "MI": "X", "MA": "X"},
		{"CR": "L", "IR": "M", "AR": "H", "MAV": "A", "MAC": "L", "MPR": "H", "MUI": "N", "MS": "C", "MC": "L", "MI": "H", "MA": "N"},
		{"MS": "C", "MPR": "L"}, {"MS": "U", "MPR": "H"}, {"MC": "H", "MI": "H", "MA": "H", "CR": "H", "IR": "H", "AR": "H"},
		{"MAV": "N", "MAC": "L", "MPR": "N", "MUI": "N"}, {"MC": "N", "MI": "N", "MA": "N"},
	}
}

func enumV3EnvProduct(r *ev.Run, P props, st *enumStats, every int) {
	ems := spec.At(3, 2)
	total := 1
	for _, m := range ems {
		total *= len(m.Codes)
	}
	envAt := func(i int) map[string]string {
		t := make(map[string]string, 24)
		for k := len(ems) - 1; k >= 0; k-- {
			n := len(ems[k].Codes)
			t[ems[k].Name] = ems[k].Codes[i%n].Code
			i /= n
		}
		return t
	}
	bts := []struct {
		ver string
		tok map[string]string
	}{
		{"3.1", map[string]string{"AV": "A", "AC": "H", "PR": "L", "UI": "N", "S": "C", "C": "L", "I": "H", "A": "L", "E": "P", "RL": "O", "RC": "U"}},
		{"3.0", map[string]string{"AV": "P", "AC": "L", "PR": "H", "UI": "R", "S": "U", "C": "H", "I": "N", "A": "N"}},
		{"3.0", map[string]string{"AV": "N", "AC": "L", "PR": "N", "UI": "N", "S": "C", "C": "N", "I": "L", "A": "H", "E": "X", "RL": "W", "RC": "X"}},
	}
	var n int64
	safeParallel(r, 2048, func(sh int) {
		var ln int64
		for i := sh; i < total; i += 2048 {
			if every > 1 && i%every != 0 {
				continue
			}
			e := envAt(i)
			for _, bt := range bts {
				tok := merge(bt.tok, e)
				c := &dcase{ver: 3, level: 2, tok: tok, verLabel: bt.ver}
				c.s = canonicalWritten(3, 2, bt.ver, tok)
				evalDecoded(r, P, st, c)
				ln++
			}
		}
		atomic.AddInt64(&n, ln)
	})
	r.Add("evaluations", n)
	r.Add("distinct_nontrivial", n)
	r.Add("v3_environmental_product_vectors", n)
}

// enumV3BaseSuffixes: every base vector x 2 temporal settings x all 20 environmental suffixes.
func enumV3BaseSuffixes(r *ev.Run, P props) {
	bases := allTok(3, 0)
	var n int64
	safeParallel(r, len(bases), func(i int) {
		for vi, verLabel := range spec.V3Versions {
			for _, e := range v3EnvSuffixes() {
				tok := merge(bases[i], e)
				if (i+vi)%2 == 0 {
					tok["E"], tok["RC"] = "F", "R"
				}
				c := &dcase{ver: 3, level: 2, tok: tok, verLabel: verLabel}
				c.s = canonicalWritten(3, 2, verLabel, tok)
				evalDecoded(r, P, nil, c)
				atomic.AddInt64(&n, 1)
			}
		}
	})
	r.Add("evaluations", n)
	r.Add("distinct_nontrivial", n)
}

// topFirstSweep: the lower-level scores asked AFTER every query on the higher-level views — the
// order in which a user who is interested in the environmental score first meets them.  v3: every
// base vector x both versions x 26 environmental suffixes (among them modified impact None with
// modified exploitability and scope that differ from the base metrics) x 2 temporal settings at
// the environmental decoder; v2: every base x temporal combination x 12 environmental groups.
// A higher-level query that works on the embedded object in place and forgets to restore it on
// one path is invisible to base-first orders (round 4, C01-B-r4, C02-B-r4).
func topFirstSweep(r *ev.Run, ver, scoreLevel int) {
	P := noScore
	P.scoreLevel, P.topFirst = scoreLevel, true
	var n int64
	if ver == 3 {
		bases := allTok(3, 0)
		suffixes := append(v3EnvSuffixes(),
			map[string]string{"MC": "N", "MI": "N", "MA": "N", "MAV": "P", "MAC": "H", "MPR": "H", "MUI": "R", "MS": "C"},
			map[string]string{"MC": "N", "MI": "N", "MA": "N", "MAV": "N", "MAC": "L", "MPR": "N", "MUI": "N", "MS": "U"},
			map[string]string{"MC": "N", "MI": "N", "MA": "N", "MAV": "L", "MPR": "L"},
			map[string]string{"MC": "H", "MI": "H", "MA": "H", "MAV": "A", "MAC": "H", "MPR": "L", "MUI": "R", "MS": "U", "CR": "L", "IR": "L", "AR": "L"},
			map[string]string{"MAV": "P", "MAC": "H", "MPR": "H", "MUI": "R", "MS": "C", "CR": "H"},
			map[string]string{"MAV": "N", "MAC": "L", "MPR": "N", "MUI": "N", "MS": "U", "MC": "L", "MI": "L", "MA": "L"})
		safeParallel(r, len(bases), func(i int) {
			var ln int64
			for _, verLabel := range spec.V3Versions {
				for si, e := range suffixes {
					tok := merge(bases[i], e)
					if (i+si)%2 == 0 {
						tok["E"], tok["RL"], tok["RC"] = "P", "T", "U"
					}
					c := &dcase{ver: 3, level: 2, tok: tok, verLabel: verLabel}
					c.s = canonicalWritten(3, 2, verLabel, tok)
					evalDecoded(r, P, nil, c)
					ln++
				}
			}
			atomic.AddInt64(&n, ln)
		})
	} else {
		bases, temps := allTok(2, 0), v2TempGroups()
		groups := v2EnvGroups()
		safeParallel(r, len(bases), func(i int) {
			var ln int64
			for ti, t := range temps {
				for k := 0; k < 12; k++ {
					g := groups[1+(k*163+ti*7+i)%(len(groups)-1)]
					tok := merge(merge(bases[i], t.tok), g.tok)
					c := &dcase{ver: 2, level: 2, tok: tok}
					c.s = canonicalWritten(2, 2, "", tok)
					evalDecoded(r, P, nil, c)
					ln++
				}
			}
			atomic.AddInt64(&n, ln)
		})
	}
	r.Add("evaluations", n)
	r.Add("lower_level_scores_asked_after_the_higher_levels", n)
}

// viewsAfterInstalments: the library's decoders accept a vector in instalments (a second Decode
// on the same object that supplies only metrics it does not hold yet).  Decode the base part,
// query every view, decode the rest, and compare the views with independent lower-level decodes
// of the combined vector.
func viewsAfterInstalments(r *ev.Run) {
	var n int64
	for _, ver := range []int{3, 2} {
		for _, bg := range scoreBackgrounds(ver) {
			for level := 1; level < 3; level++ {
				full := lang.Project(ver, level, bg.tok)
				for split := 0; split < level; split++ {
					first := lang.Project(ver, split, full)
					rest := map[string]string{}
					for k, v := range full {
						if _, ok := first[k]; !ok {
							rest[k] = v
						}
					}
					d := lib.New(ver, level)
					s1, s2 := canonicalWritten(ver, level, bg.ver, first), canonicalWritten(ver, level, bg.ver, rest)
					lib.Decode(d, s1)
					for q := 0; q <= level; q++ {
						lib.Observe(lib.Sub(d, q))
					}
					obj, err, pan := lib.Decode(d, s2)
					n++
					if pan != "" {
						r.Violate(ev.Violation{Kind: "second-decode-panics", Case: map[string]any{"cvss": ver, "decoder": spec.LevelNames[level], "first_input": s1, "second_input_on_the_same_decoder": s2}, Observed: pan, Expected: "no panic"})
						continue
					}
					if err != nil || obj == nil {
						continue // not accepted in instalments: nothing to compare
					}
					for lv := 0; lv < level; lv++ {
						ps := canonicalWritten(ver, lv, bg.ver, lang.Project(ver, lv, full))
						ind, ierr, _ := lib.DecodeNew(ver, lv, ps)
						if ierr != nil || ind == nil {
							continue
						}
						if a, b := lib.Observe(lib.Sub(obj, lv)), lib.Observe(ind); a != b {
							r.Violate(ev.Violation{Kind: "view-differs-after-instalment-decode", Case: map[string]any{"cvss": ver, "decoder": spec.LevelNames[level], "first_input": s1, "then_every_view_queried_then_second_input_on_the_same_decoder": s2, "view": spec.LevelNames[lv], "projection": ps},
								Observed: a.String(), Expected: b.String() + "  (independent decode of the projection)"})
						}
					}
				}
			}
		}
	}
	r.Add("instalment_decodes", n)
	viewsTakenBeforeDecode(r)
}

// viewsTakenBeforeDecode: (i) the views are taken from the constructor result, then the owner
// decodes the vector: the views taken earlier must show the decoded vector like independent
// lower-level decodes do; (ii) optional fields are assigned before Decode and the vector spells
// those metrics out as Not Defined; (iii) v3: the embedded reports of a report equal the reports
// built from independent lower-level decodes.
func viewsTakenBeforeDecode(r *ev.Run) {
	var n int64
	for _, ver := range []int{3, 2} {
		for _, bg := range scoreBackgrounds(ver) {
			for level := 1; level < 3; level++ {
				full := lang.Project(ver, level, bg.tok)
				s := canonicalWritten(ver, level, bg.ver, full)
				// (i)
				d := lib.New(ver, level)
				var early []any
				for lv := 0; lv < level; lv++ {
					early = append(early, lib.Sub(d, lv))
				}
				obj, err, _ := lib.Decode(d, s)
				n++
				if err == nil && obj != nil {
					for lv := 0; lv < level; lv++ {
						ps := canonicalWritten(ver, lv, bg.ver, lang.Project(ver, lv, full))
						ind, ierr, _ := lib.DecodeNew(ver, lv, ps)
						if ierr != nil || ind == nil {
							continue
						}
						if a, b := lib.Observe(early[lv]), lib.Observe(ind); a != b {
							r.Violate(ev.Violation{Kind: "view-taken-before-decode-differs", Case: map[string]any{"cvss": ver, "decoder": spec.LevelNames[level], "history": []string{"d := constructor result", "v := the " + spec.LevelNames[lv] + " view of d", "d.Decode(" + s + ")", "query v"}, "projection": ps},
								Observed: a.String(), Expected: b.String() + "  (independent decode of the projection)"})
						}
					}
				}
				// (ii)
				for _, m := range spec.UpTo(ver, level) {
					if m.Level == 0 || (ver == 2 && !lang.GroupPresent(full, m.Level)) {
						continue
					}
					en := lib.EnumOf(ver, m.Name)
					d := lib.New(ver, level)
					lib.SetField(d, m.Name, en.Consts[len(en.Consts)-1-boolInt(m.Codes[len(m.Codes)-1].ND)])
					t := copyTok(full)
					t[m.Name] = m.NDCode()
					st := canonicalWritten(ver, level, bg.ver, t)
					obj, err, _ := lib.Decode(d, st)
					n++
					if err != nil || obj == nil {
						continue
					}
					c := &dcase{ver: ver, level: level, s: st, tok: t, verLabel: bg.ver}
					c2 := *c
					checkViews(r, &c2, obj)
				}
				// (iii)
				if ver == 3 {
					if o, err, _ := lib.DecodeNew(3, level, s); err == nil && o != nil {
						outer := reportOf(o, language.English)
						for lv := 0; lv < level; lv++ {
							ps := canonicalWritten(3, lv, bg.ver, lang.Project(3, lv, full))
							ind, ierr, _ := lib.DecodeNew(3, lv, ps)
							if ierr != nil || ind == nil {
								continue
							}
							n++
							if a, b := dump.Of(embeddedReport(outer, level-lv)), dump.Of(reportOf(ind, language.English)); a != b {
								r.Violate(ev.Violation{Kind: "embedded-report-differs-from-lower-level-report", Case: map[string]any{"vector": s, "report_level": spec.LevelNames[level], "embedded": spec.LevelNames[lv], "projection": ps}, Observed: a, Expected: b})
							}
						}
					}
				}
			}
		}
	}
	r.Add("view_histories", n)
}

func boolInt(b bool) int {
	if b {
		return 1
	}
	return 0
}

// embeddedReport descends `steps` levels into the embedded reports.
func embeddedReport(rep any, steps int) any {
	for ; steps > 0; steps-- {
		switch x := rep.(type) {
		case *report.EnvironmentalReport:
			rep = x.TemporalReport
		case *report.TemporalReport:
			rep = x.BaseReport
		}
	}
	return rep
}

func init() {
	// C06: grid and bands at every level of both versions
	register("C06", "exploration", func(r *ev.Run, thorough bool) {
		P := noScore
		P.grid = true
		st3, st2 := newStats(), newStats()
		enumV3Base(r, P, st3)
		enumV3Temporal(r, P, st3, []int{1, 2}, []map[string]string{{}})
		envEffective(r, P, st3, true)
		if thorough {
			envLattices(r, P, st3, 1)
		} else {
			envLattices(r, P, st3, 16)
		}
		enumV2Temporal(r, P, st2, []int{0, 1, 2}, []map[string]string{{}})
		if thorough {
			envFull(r, P, [][3]int{{0, 0, 0}}, 1)
			envFullV2(r, false, true, false, 1, st2)
		} else {
			envFull(r, P, [][3]int{{3, 2, 1}}, 193)
			envFullV2(r, false, true, false, 1, st2)
		}
		r.Phase("first use in fresh processes", func() { firstUseScores(r, 3, 0); firstUseScores(r, 2, 0) })
		r.Phase("score and severity sequences", func() {
			for lv := 0; lv < 3; lv++ {
				scoreSequences(r, 3, lv)
				scoreSequences(r, 2, lv)
			}
		})
		st3.report(r, 3)
		st2.report(r, 2)
		r.Set("exhaustive", thorough)
		r.Set("rule", "the enumerations of C01-C05 (v3: all base, all base x temporal, every effective environmental combination x temporal, the fallback lattices, the environmental product [thorough: complete, quick: thinned]; v2: all 73,629 base/temporal vectors and the complete 141M environmental domain) with the oracle 'score is k/10 in [0,10], prints with <=1 decimal, Severity() is the band of that score at the same level'; v2 environmental cases in the specification-negative region are exempt from sign and band; distinct by metric values")
		r.Assume("band table transcribed from the property text; the exempt region is decided by the exact oracle (adjusted base equation negative)")
	})

	// C13: neutrality and monotonicity
	register("C13", "exploration", func(r *ev.Run, thorough bool) {
		P := noScore
		P.neutral = true
		st3, st2 := newStats(), newStats()
		enumV3Temporal(r, P, st3, []int{1, 2}, []map[string]string{{}, {"CR": "X", "IR": "X", "AR": "X", "MAV": "X", "MAC": "X", "MPR": "X", "MUI": "X", "MS": "X", "MC": "X", "MI": "X", "MA": "X"}})
		enumV2Temporal(r, P, st2, []int{1, 2}, []map[string]string{{}, {"CDP": "H", "TD": "N", "CR": "H", "IR": "H", "AR": "H"}, {"CDP": "ND", "TD": "ND", "CR": "ND", "IR": "ND", "AR": "ND"}})
		envFullV2(r, false, false, true, 1, nil)
		r.Phase("first use in fresh processes", func() { firstUseScores(r, 3, 1); firstUseScores(r, 2, 1) })
		r.Phase("score sequences", func() {
			for _, lv := range []int{1, 2} {
				scoreSequences(r, 3, lv)
				scoreSequences(r, 2, lv)
			}
		})
		r.Set("exhaustive", true)
		r.Set("rule", "complete v3 domain 2 x 2,592 x 100 at the temporal decoder and at the environmental decoder with the environmental metrics omitted and all written as X; complete v2 73,629 base/temporal domain at both decoders plus the complete 141M v2 environmental domain for TD:N => 0 and group absent => temporal score; relations: temporal(all ND)==base, environmental(all ND)==temporal except v3.1 with S:C, TD:N => 0, temporal<=base; distinct by token set")
	})

	// C14: views agree with independent lower-level decodes
	register("C14", "exploration", func(r *ev.Run, thorough bool) {
		P := noScore
		P.views = true
		if thorough {
			enumV3Temporal(r, P, nil, []int{1, 2}, v3EnvSuffixes())
		} else {
			enumV3Temporal(r, P, nil, []int{1, 2}, v3EnvSuffixes()[:1])
			enumV3BaseSuffixes(r, P)
		}
		if thorough {
			enumV3EnvProduct(r, P, nil, 1)
		} else {
			enumV3EnvProduct(r, P, nil, 37)
		}
		enumV2Temporal(r, P, nil, []int{1, 2}, []map[string]string{{}, {"CDP": "LM", "TD": "M", "CR": "H", "IR": "L", "AR": "ND"}, {"CDP": "N", "TD": "N", "CR": "L", "IR": "L", "AR": "L"}, {"CDP": "H", "TD": "H", "CR": "M", "IR": "ND", "AR": "M"}})
		if thorough {
			dpathSliceV2(r, P, nil, func(gi int) bool { return gi%4 == 0 })
		} else {
			dpathSliceV2(r, P, nil, func(gi int) bool { return gi%240 == 0 })
		}
		r.Phase("views after instalment decoding", func() { viewsAfterInstalments(r) })
		r.Set("exhaustive", false)
		r.Set("complete_subdomains", "v3 base x temporal (518,400) at the temporal decoder and at the environmental decoder x 20 environmental suffixes; v2 base x temporal (73,629) at both decoders x 3 suffixes; thorough adds all 2,211,840 v3 environmental combinations x 3 base+temporal vectors and a quarter of the v2 141M domain")
		r.Set("rule", "for every vector: the object returned by BaseMetrics()/TemporalMetrics() is pointer-identical on repeated calls and to the embedded field, and its score, severity, validity, encoding, string and complete reflective state equal those of an independent lower-level decode of the projected vector; distinct by token set")
	})

	// C01 (ENUM part; the GRAPH part is added in graph.go)
	register("C01", "model_checking", func(r *ev.Run, thorough bool) {
		P := noScore
		P.scoreLevel = 0
		st := newStats()
		enumV3Base(r, P, st)
		r.Phase("score sequences", func() { scoreSequences(r, 3, 0) })
		r.Phase("higher levels queried first", func() { topFirstSweep(r, 3, 0) })
		r.Phase("first use in fresh processes", func() { firstUseScores(r, 3, 0) })
		graphC01(r, thorough)
		st.report(r, 3)
		r.Set("oracle_ambiguous_roundings", int64(oracle.GetV3().Ambiguous))
		setExhaustiveUnlessCapped(r)
		r.Assume("exact oracle: math/big.Rat, FIRST v3.0/v3.1 base equations, weights transcribed in internal/spec; ceiling and Appendix-A round-up agree on all 5,184 cases")
	})
}
