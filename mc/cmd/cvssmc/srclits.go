package main

// White-box alphabet (round 6).  The token alphabets, edit balls and name sweeps are chosen by the
// harness; a change that special-cases ONE text the harness never thought of (an alias table, a
// comparison with an error message, a keyword) is outside all of them.  The guidance's rule is
// "one input per shortcut you can see in the code": every string literal of the library's CURRENT
// source (re-read at check time from the working tree the harness is built against) and the text
// of every exported sentinel error is therefore offered to the decoders as a token, as a metric
// name, as a value and as a prefix, and to every Get* parser as a code.  Also here: the escape
// families (a vector as it appears inside a URL, HTML, JSON or a shell string).

import (
	"fmt"
	"go/ast"
	"go/parser"
	gotoken "go/token"
	"os"
	"path/filepath"
	"sort"
	"strconv"
	"strings"
	"sync"

	"cvssmc/internal/ev"
	"cvssmc/internal/lib"
)

var (
	srcLitOnce sync.Once
	srcLits    []string
)

// sourceLiterals returns every distinct string literal (and rune literal, as a string) of the
// non-test Go files below the library root, plus the messages of the exported sentinel errors.
func sourceLiterals() []string {
	srcLitOnce.Do(func() {
		seen := map[string]bool{}
		add := func(s string) {
			if s == "" || len(s) > 96 || seen[s] {
				return
			}
			seen[s] = true
			srcLits = append(srcLits, s)
		}
		fset := gotoken.NewFileSet()
		filepath.Walk(repoDir(), func(p string, fi os.FileInfo, err error) error {
			if err != nil {
				return nil
			}
			if fi.IsDir() {
				if n := fi.Name(); n == ".git" || n == "testdata" || n == "demo" {
					return filepath.SkipDir
				}
				return nil
			}
			if !strings.HasSuffix(p, ".go") || strings.HasSuffix(p, "_test.go") {
				return nil
			}
			f, err := parser.ParseFile(fset, p, nil, 0)
			if err != nil {
				return nil
			}
			ast.Inspect(f, func(n ast.Node) bool {
				if _, ok := n.(*ast.ImportSpec); ok {
					return false
				}
				if bl, ok := n.(*ast.BasicLit); ok && (bl.Kind == gotoken.STRING || bl.Kind == gotoken.CHAR) {
					if bl.Kind == gotoken.STRING {
						if s, err := strconv.Unquote(bl.Value); err == nil {
							add(s)
							for _, part := range strings.FieldsFunc(s, func(r rune) bool { return r == ',' || r == ';' || r == '|' || r == ' ' }) {
								add(part)
							}
						}
					} else if r, _, _, err := strconv.UnquoteChar(strings.Trim(bl.Value, "'"), '\''); err == nil {
						add(string(r))
					}
				}
				return true
			})
			return nil
		})
		for _, e := range lib.Sentinels {
			add(e.Err.Error())
		}
		sort.Strings(srcLits)
	})
	return srcLits
}

// sourceLiteralTokens: every source literal L at every decoder as a whole token, a name, a value,
// in front of and behind a valid vector, alone, and (v3) behind the prefix.
func sourceLiteralTokens(r *ev.Run, G *gprops, gs *gstats, vers []int) {
	lits := sourceLiterals()
	var n int64
	for _, ver := range vers {
		valid := seeds(ver)[0]
		// a vector that lacks its last base metric, so that "A:<L>" is judged as a value
		cut := strings.LastIndex(valid, "/")
		short, lastName := valid[:cut], valid[cut+1:strings.LastIndex(valid, ":")]
		for _, L := range lits {
			ins := []string{
				L,
				valid + "/" + L,
				valid + "/" + L + ":N",
				valid + "/" + L + ":" + L,
				short + "/" + lastName + ":" + L,
				short + "/" + L,
				L + "/" + valid,
				valid + L,
				L + valid,
				strings.Replace(valid, "/", "/"+L+"/", 1),
			}
			if ver == 3 {
				ins = append(ins, "CVSS:"+L+valid[len("CVSS:3.1"):], "CVSS:3.1/"+L, L+valid[len("CVSS:3.1"):], "CVSS:3.1"+L+valid[len("CVSS:3.1"):])
			}
			for _, s := range ins {
				for lv := 0; lv < 3; lv++ {
					judge(r, G, gs, ver, lv, s)
				}
				n++
			}
			// L as the value of every metric of the full seed in turn, and as its name
			full := seeds(ver)[len(seeds(ver))-1]
			if ver == 3 {
				full = seeds(3)[2]
			}
			toks := strings.Split(full, "/")
			for i, tk := range toks {
				c := strings.IndexByte(tk, ':')
				if c < 0 || (ver == 3 && i == 0) {
					continue
				}
				for _, repl := range []string{tk[:c] + ":" + L, L + tk[c:]} {
					x := append(append(append([]string{}, toks[:i]...), repl), toks[i+1:]...)
					for lv := 0; lv < 3; lv++ {
						judge(r, G, gs, ver, lv, strings.Join(x, "/"))
					}
					n++
				}
			}
		}
	}
	r.Add("source_literal_inputs", n)
	r.Set("source_literals", len(lits))
}

// escapeForms returns the spellings of byte c in the escape conventions of URLs, HTML, JSON/Go/C
// strings and shells.
func escapeForms(c byte) []string {
	out := []string{
		fmt.Sprintf("%%%02X", c), fmt.Sprintf("%%%02x", c), fmt.Sprintf("%%25%02X", c),
		fmt.Sprintf("&#%d;", c), fmt.Sprintf("&#x%02X;", c), fmt.Sprintf("&#x%02x;", c),
		fmt.Sprintf("\\x%02x", c), fmt.Sprintf("\\u%04x", c), fmt.Sprintf("\\%03o", c), "\\" + string(c),
		fmt.Sprintf("=%02X", c), fmt.Sprintf("%%u%04X", c),
	}
	switch c {
	case '/':
		out = append(out, "&sol;", "\\/", "%2F%2F", "//")
	case ':':
		out = append(out, "&colon;", "%3A%3A")
	case '.':
		out = append(out, "&period;")
	case ' ':
		out = append(out, "+", "&nbsp;")
	}
	return out
}

// escapedVectors: every single character of a seed vector in every escape form; every separator
// at once, every colon at once, both at once, every character at once; the forms applied twice.
// All must be rejected (an unescaping step in front of the parser accepts some of them).
func escapedVectors(r *ev.Run, G *gprops, gs *gstats, vers []int) {
	var n int64
	run := func(ver int, s string) {
		for lv := 0; lv < 3; lv++ {
			judge(r, G, gs, ver, lv, s)
		}
		n++
	}
	for _, ver := range vers {
		for _, seed := range seeds(ver) {
			for i := 0; i < len(seed); i++ {
				for _, f := range escapeForms(seed[i]) {
					run(ver, seed[:i]+f+seed[i+1:])
				}
			}
			nforms := len(escapeForms('A'))
			for fi := 0; fi < nforms; fi++ {
				for _, class := range []string{"/", ":", "/:", "/:.", ""} {
					var b strings.Builder
					for i := 0; i < len(seed); i++ {
						if class == "" || strings.IndexByte(class, seed[i]) >= 0 {
							b.WriteString(escapeForms(seed[i])[fi])
						} else {
							b.WriteByte(seed[i])
						}
					}
					run(ver, b.String())
				}
			}
			// a trailing or leading escape that decodes to nothing visible, and a query-string
			// setting
			for _, w := range [][2]string{{"", "%00"}, {"", "%20"}, {"%20", ""}, {"", "%0A"}, {"vector=", "&x=1"}, {"?", ""}, {"", "#"}, {"", "%"}, {"%", ""}, {"", "&amp;"}, {"", "\\"}, {"\\", ""}} {
				run(ver, w[0]+seed+w[1])
			}
		}
	}
	r.Add("escaped_inputs", n)
}

// sourceLiteralCodes returns the source literals as candidate codes for the Get* parsers.
func sourceLiteralCodes() []string { return sourceLiterals() }
