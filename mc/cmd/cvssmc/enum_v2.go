package main

import (
	"fmt"
	"math"
	"sync/atomic"

	"cvssmc/internal/ev"
	"cvssmc/internal/oracle"
	"cvssmc/internal/spec"

	v2 "github.com/goark/go-cvss/v2/metric"
)

var (
	l2AV = []v2.AccessVector{v2.AccessVectorLocal, v2.AccessVectorAdjacent, v2.AccessVectorNetwork}
	l2AC = []v2.AccessComplexity{v2.AccessComplexityHigh, v2.AccessComplexityMedium, v2.AccessComplexityLow}
	l2Au = []v2.Authentication{v2.AuthenticationMultiple, v2.AuthenticationSingle, v2.AuthenticationNone}
	l2C  = []v2.ConfidentialityImpact{v2.ConfidentialityImpactNone, v2.ConfidentialityImpactPartial, v2.ConfidentialityImpactComplete}
	l2I  = []v2.IntegrityImpact{v2.IntegrityImpactNone, v2.IntegrityImpactPartial, v2.IntegrityImpactComplete}
	l2A  = []v2.AvailabilityImpact{v2.AvailabilityImpactNone, v2.AvailabilityImpactPartial, v2.AvailabilityImpactComplete}
)

// knownC05 decides whether a v2 environmental score that is not admissible by the specification
// is explained by the listed known finding D1 (adjusted impact rounded to two decimals before
// the base equation).  Only consulted by runs of C05.
func knownC05(r *ev.Run, c *dcase, x v2Idx, t int, onGrid bool) bool {
	if r.ID != "C05" || !ev.IsKnown("C05", "D1") || !x.envPresent {
		return false
	}
	if !onGrid && t >= 0 {
		return false
	}
	set, _ := oracle.GetV2().EnvSet(x.bi, x.ti, true, x.cdp, x.td, x.ri, true)
	if inSet(set, t) {
		r.Known("D1", c.s)
		return true
	}
	return false
}

// enumV2Temporal: all 729 x 101 base/temporal vectors through the given decoders, optionally
// extended by environmental suffixes at the environmental decoder.
func enumV2Temporal(r *ev.Run, P props, st *enumStats, decoders []int, envSuffixes []map[string]string) {
	bases := allTok(2, 0)
	temps := append([]map[string]string{{}}, allTok(2, 1)...)
	var n, dn int64
	safeParallel(r, len(bases), func(i int) {
		var ln int64
		for _, t := range temps {
			tok := merge(bases[i], t)
			for _, dec := range decoders {
				if dec == 0 && len(t) > 0 {
					continue
				}
				sfx := []map[string]string{{}}
				if dec == 2 {
					sfx = envSuffixes
				}
				for _, e := range sfx {
					tk := merge(tok, e)
					c := &dcase{ver: 2, level: dec, tok: tk}
					c.s = canonicalWritten(2, dec, "", tk)
					evalDecoded(r, P, st, c)
					ln++
				}
			}
		}
		atomic.AddInt64(&n, ln)
		atomic.AddInt64(&dn, int64(len(temps)))
		if i == 400 {
			r.Sample(canonicalWritten(2, 1, "", merge(bases[i], temps[57])))
		}
	})
	r.Add("evaluations", n)
	r.Add("distinct_nontrivial", dn)
}

func init() {
	register("C04", "exploration", func(r *ev.Run, thorough bool) {
		st := newStats()
		for _, lv := range []int{0, 1} {
			P := noScore
			P.scoreLevel = lv
			enumV2Temporal(r, P, st, []int{0, 1, 2}, []map[string]string{{}, {"CDP": "LM", "TD": "M", "CR": "H", "IR": "L", "AR": "ND"}})
		}
		r.Phase("score sequences", func() { scoreSequences(r, 2, 0); scoreSequences(r, 2, 1) })
		r.Phase("higher levels queried first", func() { topFirstSweep(r, 2, 0); topFirstSweep(r, 2, 1) })
		r.Phase("first use in fresh processes", func() { firstUseScores(r, 2, 0); historyVariantsFor(r, 2, 0) })
		st.report(r, 2)
		r.Set("oracle_exact_ties", int64(oracle.GetV2().Ties))
		r.Set("exhaustive", true)
		r.Set("rule", "all 729 base combinations x (100 temporal combinations + group absent) = 73,629 vectors, each decoded by the real base (base-only vectors), temporal and environmental decoders (the latter without and with an environmental group); Base.Score() and Temporal.Score() of every view compared with the exact rational oracle, exact halves admitting both neighbours; distinct by token set")
		r.Assume("exact oracle: math/big.Rat, CVSS v2 guide section 3.2 equations and weights transcribed in internal/spec")
	})
}

// ---------------------------------------------------------------------------------------------
// C05: the complete 141,441,309-vector domain on the F-path

type v2Group struct {
	s           string
	tok         map[string]string
	cdp, td, ri int
	present     bool
}

func v2EnvGroups() []v2Group {
	gs := []v2Group{{}}
	for _, t := range allTok(2, 2) {
		g := v2Group{tok: t, present: true}
		g.cdp, g.td = idxOf(2, "CDP", t["CDP"]), idxOf(2, "TD", t["TD"])
		g.ri = (idxOf(2, "CR", t["CR"])*4+idxOf(2, "IR", t["IR"]))*4 + idxOf(2, "AR", t["AR"])
		gs = append(gs, g)
	}
	return gs
}

type v2Temp struct {
	tok map[string]string
	ti  int
}

func v2TempGroups() []v2Temp {
	ts := []v2Temp{{tok: map[string]string{}}}
	for _, t := range allTok(2, 1) {
		ts = append(ts, v2Temp{tok: t, ti: 1 + (idxOf(2, "E", t["E"])*5+idxOf(2, "RL", t["RL"]))*4 + idxOf(2, "RC", t["RC"])})
	}
	return ts
}

func v2BaseVec(bi int) (string, map[string]string) {
	idx := []int{bi / 243, (bi / 81) % 3, (bi / 27) % 3, (bi / 9) % 3, (bi / 3) % 3, bi % 3}
	tok := map[string]string{}
	for i, m := range spec.At(2, 0) {
		tok[m.Name] = m.Codes[idx[i]].Code
	}
	return canonicalWritten(2, 0, "", tok), tok
}

// envFullV2 enumerates all (temporal group, environmental group) pairs through the real decoder
// and all 729 base assignments inside by field assignment.  every>1 thins the environmental
// groups (quick tiers of dependent properties).
func envFullV2(r *ev.Run, score, grid, neutral bool, every int, st *enumStats) {
	o := oracle.GetV2()
	known := r.ID == "C05" && ev.IsKnown("C05", "D1")
	gs, ts := v2EnvGroups(), v2TempGroups()
	var total, bad, negRegion, ties, explained, decoded int64
	safeParallel(r, len(gs), func(gi int) {
		if every > 1 && gi%every != 0 && gi != 0 {
			return
		}
		g := gs[gi]
		var lt, lb, ln, lm, le, ld int64
		lex := ""
		defer func() {
			if le > 0 {
				r.KnownN("D1", le, lex)
			}
		}()
		for _, t := range ts {
			tok := merge(merge(map[string]string{"AV": "L", "AC": "H", "Au": "M", "C": "N", "I": "N", "A": "N"}, t.tok), g.tok)
			vec := canonicalWritten(2, 2, "", tok)
			m, err := v2.NewEnvironmental().Decode(vec)
			if err != nil || m == nil {
				r.Violate(ev.Violation{Kind: "valid-vector-not-decoded", Case: map[string]any{"cvss": 2, "vector": vec}, Observed: fmt.Sprint(err), Expected: "accepted"})
				continue
			}
			ld++
			for bi := 0; bi < 729; bi++ {
				m.AV, m.AC, m.Au, m.C, m.I, m.A = l2AV[bi/243], l2AC[(bi/81)%3], l2Au[(bi/27)%3], l2C[(bi/9)%3], l2I[(bi/3)%3], l2A[bi%3]
				set, neg := o.EnvSet(bi, t.ti, g.present, g.cdp, g.td, g.ri, false)
				got := m.Score()
				t10 := int(math.Round(got * 10))
				on := got == float64(t10)/10
				lt++
				if neg {
					ln++
				}
				if len(set) > 1 {
					lm++
				}
				if st != nil && gi%16 == 0 {
					st.attain(2, t10)
				}
				fail := ""
				if score && (!inSet(set, t10) || (!on && !neg)) {
					if known && g.present {
						if d1, _ := o.EnvSet(bi, t.ti, true, g.cdp, g.td, g.ri, true); inSet(d1, t10) && (on || t10 < 0) {
							le++
							if le == 1 {
								bs, _ := v2BaseVec(bi)
								lex = bs + vec[len("AV:L/AC:H/Au:M/C:N/I:N/A:N"):]
							}
							goto next
						}
					}
					fail = "score"
				}
				if grid && fail == "" {
					switch {
					case neg:
						if math.Abs(got*10-math.Round(got*10)) > 1e-9 {
							fail = "off-grid"
						}
					case !on || t10 < 0 || t10 > 100:
						fail = "off-grid"
					case m.Severity().String() != spec.V2Band(t10):
						fail = "severity-band"
					}
				}
				if neutral && fail == "" {
					if g.present && g.tok["TD"] == "N" && got != 0 {
						fail = "td-none-not-zero"
					}
					if !g.present && got != m.Temporal.Score() {
						fail = "environmental-absent-differs-from-temporal"
					}
				}
				if fail != "" {
					lb++
					if lb <= 2 {
						bs, _ := v2BaseVec(bi)
						full := bs + vec[len("AV:L/AC:H/Au:M/C:N/I:N/A:N"):]
						r.Violate(ev.Violation{Kind: fail, Case: map[string]any{"cvss": 2, "decoder": "environmental", "vector": full, "path": "group decoded by the real decoder, base fields assigned"},
							Observed: fmt.Sprintf("score %v severity %s", got, m.Severity()), Expected: "score " + tenthStr(set),
							GoTest: fmt.Sprintf("m, err := v2.NewEnvironmental().Decode(%q)\nif err != nil { t.Fatal(err) }\nt.Log(m.Score(), m.Severity()) // specification: %s", full, tenthStr(set))})
					}
				}
			next:
			}
		}
		atomic.AddInt64(&total, lt)
		atomic.AddInt64(&bad, lb)
		atomic.AddInt64(&negRegion, ln)
		atomic.AddInt64(&ties, lm)
		atomic.AddInt64(&explained, le)
		atomic.AddInt64(&decoded, ld)
	})
	r.Add("evaluations", total)
	r.Add("distinct_nontrivial", total)
	r.Add("v2_fpath_cases", total)
	r.Add("v2_group_pairs_decoded", decoded)
	r.Add("cases_in_specification_negative_region", negRegion)
	r.Add("cases_with_two_admissible_values", ties)
	if explained > 0 {
		r.Add("cases_explained_by_known_finding_D1", explained)
	}
	if bad > 0 {
		r.Set("violating_cases_total", bad)
	}
}

// fpathEqualsDpathV2: every vector of a slice decoded for real and compared with the F-path.
func fpathEqualsDpathV2(r *ev.Run, every int) {
	gs, ts := v2EnvGroups(), v2TempGroups()
	var n int64
	safeParallel(r, len(gs), func(gi int) {
		var ln int64
		for tk, t := range ts {
			if (gi*7+tk)%every != 0 {
				continue
			}
			tok0 := merge(merge(map[string]string{"AV": "L", "AC": "H", "Au": "M", "C": "N", "I": "N", "A": "N"}, t.tok), gs[gi].tok)
			m, err := v2.NewEnvironmental().Decode(canonicalWritten(2, 2, "", tok0))
			if err != nil {
				continue
			}
			for bi := 0; bi < 729; bi += 1 + (gi+tk)%5 {
				m.AV, m.AC, m.Au, m.C, m.I, m.A = l2AV[bi/243], l2AC[(bi/81)%3], l2Au[(bi/27)%3], l2C[(bi/9)%3], l2I[(bi/3)%3], l2A[bi%3]
				_, btok := v2BaseVec(bi)
				full := canonicalWritten(2, 2, "", merge(merge(btok, t.tok), gs[gi].tok))
				d, err := v2.NewEnvironmental().Decode(full)
				if err != nil {
					r.Violate(ev.Violation{Kind: "valid-vector-not-decoded", Case: map[string]any{"cvss": 2, "vector": full}, Observed: fmt.Sprint(err), Expected: "accepted"})
					continue
				}
				if math.Float64bits(d.Score()+0) != math.Float64bits(m.Score()+0) || d.String() != m.String() || d.Severity() != m.Severity() {
					r.Violate(ev.Violation{Kind: "assigned-fields-object-differs-from-decoded", Case: map[string]any{"cvss": 2, "decoder": "environmental", "vector": full, "path": "one decoded object whose exported base fields were re-assigned to this vector's values"},
						Observed: fmt.Sprintf("%v %s %v", m.Score(), m.String(), m.Severity()), Expected: fmt.Sprintf("%v %s %v  (a fresh decode of the vector)", d.Score(), d.String(), d.Severity())})
				}
				ln++
			}
		}
		atomic.AddInt64(&n, ln)
	})
	r.Add("fpath_dpath_equalities_checked", n)
}

// dpathFullV2: the complete domain through the real decoder (thorough).
func dpathSliceV2(r *ev.Run, P props, st *enumStats, gsel func(gi int) bool) {
	gs, ts := v2EnvGroups(), v2TempGroups()
	bases := allTok(2, 0)
	var n int64
	safeParallel(r, len(gs), func(gi int) {
		if !gsel(gi) {
			return
		}
		var ln int64
		for _, t := range ts {
			for _, b := range bases {
				tok := merge(merge(b, t.tok), gs[gi].tok)
				c := &dcase{ver: 2, level: 2, tok: tok}
				c.s = canonicalWritten(2, 2, "", tok)
				evalDecoded(r, P, st, c)
				ln++
			}
		}
		atomic.AddInt64(&n, ln)
	})
	r.Add("evaluations", n)
	r.Add("distinct_nontrivial", n)
	r.Add("v2_dpath_vectors_decoded", n)
}

func init() {
	register("C05", "exploration", func(r *ev.Run, thorough bool) {
		st := newStats()
		// single-goroutine histories first, while nothing else has been decoded in this process
		r.Phase("revisit distances", func() { revisitDistances(r, thorough, 2) })
		r.Phase("objects next to a refused continuation", func() { r.Add("twin_object_histories", twinV2Groups(r)) })
		envFullV2(r, true, false, true, 1, st)
		P := noScore
		P.scoreLevel = 2
		if thorough {
			fpathEqualsDpathV2(r, 3)
			dpathSliceV2(r, P, st, func(gi int) bool { return true }) // the complete 141,441,309-vector domain through the real decoder
		} else {
			fpathEqualsDpathV2(r, 40)
			dpathSliceV2(r, P, st, func(gi int) bool { return gi%480 == 0 })
		}
		r.Phase("score sequences", func() { scoreSequences(r, 2, 2) })
		r.Phase("first use in fresh processes", func() { firstUseScores(r, 2, 2); historyVariantsFor(r, 2, 2) })
		st.report(r, 2)
		r.Set("oracle_exact_ties", int64(oracle.GetV2().Ties))
		r.Set("exhaustive", true)
		r.Set("rule", "all 729 base x 101 temporal x (1,920 environmental groups + absent) = 141,441,309 vectors: every (temporal group, environmental group) pair is decoded by the real environmental decoder, the 729 base assignments inside are made by assigning the exported base fields (premise checked against real decodes on a slice), Score() compared with the exact rational oracle (sets for exact halves; specification-negative region admits the negative tenth, the chain on 0, or 0); absent group must equal Temporal.Score(); additionally complete vectors through the real decoder (quick: a slice; thorough: all 141,441,309); distinct by metric values")
		r.Assume("exact oracle: math/big.Rat, CVSS v2 guide section 3.2.3 equations")
		r.Assume("known finding D1 (known_findings.txt): cases whose value equals the specification chain evaluated with AdjustedImpact rounded to two decimals are counted under the finding, everything else is a violation")
	})
}
