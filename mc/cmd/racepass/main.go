// racepass: the free-running complement of the SCHED engine (DESIGN.md §5.4).  The same scenario
// bodies as under the controlled scheduler, uninstrumented, on real goroutines, built with
// -race.  Not exhaustive: it exists because a cooperative scheduler's hand-offs are
// happens-before edges that blind the race detector, and because statement-level scheduling
// points cannot see a read-modify-write inside one statement.
//
//	racepass child <i> <n>            runs the scenarios with index%n==i (invoked by `run`)
//	racepass run <result.json>        runs the child, classifies its output, writes the result
//	racepass degraded <tier> <reason> writes C16 evidence from the race pass alone
package main

import (
	"bytes"
	"encoding/json"
	"fmt"
	"os"
	"os/exec"
	"regexp"
	"runtime"
	"strconv"
	"strings"
	"sync"
	"sync/atomic"

	"cvssmc/internal/ev"
	"cvssmc/internal/scen"
)

const (
	goroutines = 8
	iterations = 60
)

// child runs the scenarios with index%n == i.  Each scenario's concurrent phase is the first
// thing that touches its operations in this process (the sequential reference is computed
// afterwards), and `run` starts many children, so lazily built state is cold when goroutines
// race for it.
func child(i, n int) {
	var ops int64
	var mism []string
	var mu sync.Mutex
	scs := append(append(append(scen.Pairs(), scen.Triples()...), scen.QueryTriples()...), append(append(scen.Bulk(), scen.Tiny()...), scen.Twins()...)...)
	// free-running build: the driver's pause between an export and draining its reader lets other
	// goroutines run; unsupported metric names are new to the process in every call
	scen.Pause = runtime.Gosched
	var fresh int64
	scen.FreshName = func() string { return "Z" + strconv.FormatInt(atomic.AddInt64(&fresh, 1), 36) }
	done := 0
	for k, sc := range scs {
		if k%n != i {
			continue
		}
		done++
		env, bodies := sc.Setup()
		got := make([][]string, goroutines)
		var wg sync.WaitGroup
		start := make(chan struct{})
		for g := 0; g < goroutines; g++ {
			g := g
			wg.Add(1)
			go func() {
				defer wg.Done()
				<-start
				for it := 0; it < iterations; it++ {
					slot := (g + it) % len(bodies)
					got[g] = append(got[g], bodies[slot]())
				}
			}()
		}
		close(start)
		wg.Wait()
		ops += int64(goroutines * iterations)
		obs := env.Observe()
		// sequential reference, computed after the concurrent phase on fresh objects
		env2, bodies2 := sc.Setup()
		want := make([]string, len(bodies2))
		for j, b := range bodies2 {
			want[j] = b()
		}
		for g := 0; g < goroutines; g++ {
			for it, res := range got[g] {
				slot := (g + it) % len(bodies)
				if res != want[slot] {
					mu.Lock()
					if len(mism) < 5 {
						mism = append(mism, fmt.Sprintf("%s: thread body %d returned %q, sequentially %q", sc.Name, slot, res, want[slot]))
					}
					mu.Unlock()
				}
			}
		}
		if obs != env2.Observe() {
			mism = append(mism, sc.Name+": shared objects changed")
		}
	}
	if i == 0 {
		for _, m := range scen.BulkScoring(goroutines) {
			if len(mism) < 5 {
				mism = append(mism, m)
			}
		}
		ops += int64(goroutines) * scen.BulkVectors
	}
	b, _ := json.Marshal(scen.RaceResult{Scenarios: done, Goroutines: goroutines, Iterations: iterations, Operations: ops, Mismatches: mism, RaceEnabled: raceEnabled})
	fmt.Println("RACEPASS-RESULT " + string(b))
}

var raceRe = regexp.MustCompile(`WARNING: DATA RACE`)

const children = 48

func runChild(i int) scen.RaceResult {
	exe, _ := os.Executable()
	cmd := exec.Command(exe, "child", fmt.Sprint(i), fmt.Sprint(children))
	// the number of processors is part of the environment too (round 7, C16-A-r7: lock stripes sized
	// by GOMAXPROCS that are only correct when it divides 64): the children run under 4, 3, 6, 5, 2, 7
	cmd.Env = append(os.Environ(), "GORACE=halt_on_error=0 history_size=3", "GOMAXPROCS="+[]string{"4", "3", "6", "5", "2", "7"}[i%6])
	var out bytes.Buffer
	cmd.Stdout, cmd.Stderr = &out, &out
	err := cmd.Run()
	text := out.String()
	var res scen.RaceResult
	for _, line := range strings.Split(text, "\n") {
		if strings.HasPrefix(line, "RACEPASS-RESULT ") {
			_ = json.Unmarshal([]byte(strings.TrimPrefix(line, "RACEPASS-RESULT ")), &res)
		}
	}
	res.Races = len(raceRe.FindAllString(text, -1))
	if res.Races > 0 {
		k := strings.Index(text, "WARNING: DATA RACE")
		end := k + 3000
		if end > len(text) {
			end = len(text)
		}
		res.FirstReport = text[k:end]
	}
	if err != nil && res.Races == 0 && res.Scenarios == 0 {
		tail := text
		if len(tail) > 3000 {
			tail = tail[:3000]
		}
		res.Crash = fmt.Sprintf("%v\n%s", err, tail)
	}
	return res
}

// run starts the children (16 at a time) and merges their results.
func run() scen.RaceResult {
	results := make([]scen.RaceResult, children)
	var wg sync.WaitGroup
	sem := make(chan struct{}, 16)
	for i := 0; i < children; i++ {
		i := i
		wg.Add(1)
		go func() {
			defer wg.Done()
			sem <- struct{}{}
			results[i] = runChild(i)
			<-sem
		}()
	}
	wg.Wait()
	total := scen.RaceResult{Goroutines: goroutines, Iterations: iterations, RaceEnabled: true}
	for _, r := range results {
		total.Scenarios += r.Scenarios
		total.Operations += r.Operations
		total.Races += r.Races
		total.Mismatches = append(total.Mismatches, r.Mismatches...)
		total.RaceEnabled = total.RaceEnabled && (r.RaceEnabled || r.Crash != "")
		if total.FirstReport == "" {
			total.FirstReport = r.FirstReport
		}
		if total.Crash == "" {
			total.Crash = r.Crash
		}
	}
	return total
}

func main() {
	if len(os.Args) < 2 {
		os.Exit(2)
	}
	switch os.Args[1] {
	case "child":
		i, _ := strconv.Atoi(os.Args[2])
		n, _ := strconv.Atoi(os.Args[3])
		child(i, n)
	case "stress":
		// the free-running stage without the race detector (this binary is also built without -race
		// as bin/stresspass): 64 goroutines on private objects
		mism, ops := scen.Stress(64, 1000)
		// ... and every base vector of both versions scored by 48 goroutines at once, each in its own order
		for _, m := range scen.BulkScoring(48) {
			if len(mism) < 8 {
				mism = append(mism, m)
			}
		}
		ops += 48 * scen.BulkVectors
		b, _ := json.Marshal(scen.RaceResult{Operations: ops, Mismatches: mism})
		fmt.Println("RACEPASS-RESULT " + string(b))
	case "run":
		res := run()
		// stress stage: the sibling binary built without -race, if present
		if exe, err := os.Executable(); err == nil {
			sp := strings.TrimSuffix(exe, "racepass") + "stresspass"
			if _, err := os.Stat(sp); err == nil {
				out, _ := exec.Command(sp, "stress").CombinedOutput()
				var sr scen.RaceResult
				ok := false
				for _, line := range strings.Split(string(out), "\n") {
					if strings.HasPrefix(line, "RACEPASS-RESULT ") {
						ok = json.Unmarshal([]byte(strings.TrimPrefix(line, "RACEPASS-RESULT ")), &sr) == nil
					}
				}
				if ok {
					res.Operations += sr.Operations
					res.StressOperations = sr.Operations
					res.Mismatches = append(res.Mismatches, sr.Mismatches...)
				} else if strings.Contains(string(out), "github.com/goark/go-cvss/") && (strings.Contains(string(out), "fatal error:") || strings.Contains(string(out), "panic:")) {
					tail := string(out)
					if len(tail) > 3000 {
						tail = tail[:3000]
					}
					res.Crash = "stress stage: " + tail
				}
			}
		}
		b, _ := json.MarshalIndent(res, "", " ")
		if err := os.WriteFile(os.Args[2], b, 0o644); err != nil {
			fmt.Println(err)
			os.Exit(2)
		}
		fmt.Printf("race pass: scenarios=%d operations=%d race_reports=%d mismatches=%d\n", res.Scenarios, res.Operations, res.Races, len(res.Mismatches))
	case "degraded":
		r := ev.New("C16", os.Args[2], "model_checking")
		res := run()
		scen.ApplyRace(r, res)
		r.Add("evaluations", res.Operations)
		r.Add("distinct_nontrivial", int64(res.Scenarios))
		r.Set("schedules", int64(0))
		r.Set("exhaustive", false)
		r.Set("degraded", "the instrumented build could not be produced for the current tree ("+os.Args[3]+"); only the free-running race pass ran")
		r.Sample("free-running race pass only")
		fmt.Println("INFRA: C16 controlled-scheduler exploration skipped:", os.Args[3])
		os.Exit(r.Finish())
	}
}
