// racepass: the free-running complement of the SCHED engine (DESIGN.md §5.4).  The same scenario
// bodies as under the controlled scheduler, uninstrumented, on real goroutines, built with
// -race.  Not exhaustive: it exists because a cooperative scheduler's hand-offs are
// happens-before edges that blind the race detector, and because statement-level scheduling
// points cannot see a read-modify-write inside one statement.
//
//	racepass child                    runs all scenarios (invoked by `run`, output = detector report)
//	racepass run <result.json>        runs the child, classifies its output, writes the result
//	racepass degraded <tier> <reason> writes C16 evidence from the race pass alone
package main

import (
	"bytes"
	"encoding/json"
	"fmt"
	"os"
	"os/exec"
	"regexp"
	"strings"
	"sync"

	"cvssmc/internal/ev"
	"cvssmc/internal/scen"
)

const (
	goroutines = 8
	iterations = 60
)

func child() {
	var ops int64
	var mism []string
	var mu sync.Mutex
	scs := append(scen.Pairs(), scen.Triples()...)
	for _, sc := range scs {
		// sequential reference
		_, bodies := sc.Setup()
		want := make([]string, len(bodies))
		for i, b := range bodies {
			want[i] = b()
		}
		env, bodies := sc.Setup()
		wantObs := env.Observe()
		var wg sync.WaitGroup
		start := make(chan struct{})
		for g := 0; g < goroutines; g++ {
			g := g
			wg.Add(1)
			go func() {
				defer wg.Done()
				<-start
				for it := 0; it < iterations; it++ {
					slot := (g + it) % len(bodies)
					if got := bodies[slot](); got != want[slot] {
						mu.Lock()
						if len(mism) < 5 {
							mism = append(mism, fmt.Sprintf("%s: thread body %d returned %q, sequentially %q", sc.Name, slot, got, want[slot]))
						}
						mu.Unlock()
					}
				}
			}()
		}
		close(start)
		wg.Wait()
		ops += int64(goroutines * iterations)
		if obs := env.Observe(); obs != wantObs {
			mism = append(mism, sc.Name+": shared objects changed")
		}
	}
	b, _ := json.Marshal(scen.RaceResult{Scenarios: len(scs), Goroutines: goroutines, Iterations: iterations, Operations: ops, Mismatches: mism, RaceEnabled: raceEnabled})
	fmt.Println("RACEPASS-RESULT " + string(b))
}

var raceRe = regexp.MustCompile(`WARNING: DATA RACE`)

func run() scen.RaceResult {
	exe, _ := os.Executable()
	cmd := exec.Command(exe, "child")
	cmd.Env = append(os.Environ(), "GORACE=halt_on_error=0 history_size=3")
	var out bytes.Buffer
	cmd.Stdout, cmd.Stderr = &out, &out
	err := cmd.Run()
	text := out.String()
	var res scen.RaceResult
	for _, line := range strings.Split(text, "\n") {
		if strings.HasPrefix(line, "RACEPASS-RESULT ") {
			_ = json.Unmarshal([]byte(strings.TrimPrefix(line, "RACEPASS-RESULT ")), &res)
		}
	}
	res.Races = len(raceRe.FindAllString(text, -1))
	if res.Races > 0 {
		i := strings.Index(text, "WARNING: DATA RACE")
		end := i + 3000
		if end > len(text) {
			end = len(text)
		}
		res.FirstReport = text[i:end]
	}
	if err != nil && res.Races == 0 && res.Scenarios == 0 {
		tail := text
		if len(tail) > 3000 {
			tail = tail[:3000]
		}
		res.Crash = fmt.Sprintf("%v\n%s", err, tail)
	}
	return res
}

func main() {
	if len(os.Args) < 2 {
		os.Exit(2)
	}
	switch os.Args[1] {
	case "child":
		child()
	case "run":
		res := run()
		b, _ := json.MarshalIndent(res, "", " ")
		if err := os.WriteFile(os.Args[2], b, 0o644); err != nil {
			fmt.Println(err)
			os.Exit(2)
		}
		fmt.Printf("race pass: scenarios=%d operations=%d race_reports=%d mismatches=%d\n", res.Scenarios, res.Operations, res.Races, len(res.Mismatches))
	case "degraded":
		r := ev.New("C16", os.Args[2], "model_checking")
		res := run()
		scen.ApplyRace(r, res)
		r.Add("evaluations", res.Operations)
		r.Add("distinct_nontrivial", int64(res.Scenarios))
		r.Set("schedules", int64(0))
		r.Set("exhaustive", false)
		r.Set("degraded", "the instrumented build could not be produced for the current tree ("+os.Args[3]+"); only the free-running race pass ran")
		r.Sample("free-running race pass only")
		fmt.Println("INFRA: C16 controlled-scheduler exploration skipped:", os.Args[3])
		os.Exit(r.Finish())
	}
}
