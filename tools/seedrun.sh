#!/usr/bin/env bash
# tools/seedrun.sh <dir-with-patch.diff-and-demo> <check-id> [more check ids...]
# 1. confirms in a scratch worktree that the change compiles, passes the repository's own tests,
#    and that the demonstration fails with it and passes without it;
# 2. applies the change to /repo, runs the given checks (quick tier), and reverts /repo.
# Prints one summary line per step; exit 0 always (this is a lab tool, not a check).
set -u
export GOFLAGS=-mod=mod GOPROXY=off GOSUMDB=off GOTOOLCHAIN=local
HERE="$(cd "$(dirname "${BASH_SOURCE[0]}")/.." && pwd)"
DIR="$(cd "$1" && pwd)"; shift
PATCH="$DIR/patch.diff"
WT="${SEED_WT:-/tmp/seedverify}"
TIER="${SEED_TIER:-quick}"
if [ ! -d "$WT" ]; then git -C /repo worktree add --detach "$WT" HEAD -q || exit 1; fi
git -C "$WT" checkout -q --detach "$(git -C /repo rev-parse HEAD)" 2>/dev/null
git -C "$WT" checkout -- . && git -C "$WT" clean -fdq
DEMO=""
for f in "$DIR"/demo_test.go "$DIR"/demo/demo_test.go; do [ -f "$f" ] && DEMO="$f"; done
run_demo() { # $1 label
  rm -rf "$WT/demo"; mkdir -p "$WT/demo"; cp "$DEMO" "$WT/demo/demo_test.go"
  EXTRA=""; grep -q '"race"' "$DIR/meta.json" 2>/dev/null && EXTRA=""
  (cd "$WT" && timeout 300 go test -vet=off -count=1 ${DEMO_FLAGS:-} ./demo/ >"$DIR/demo_$1.log" 2>&1); echo $?
}
if ! git -C "$WT" apply --check "$PATCH" 2>/dev/null; then echo "SEED $DIR: patch does not apply"; exit 0; fi
git -C "$WT" apply "$PATCH"
(cd "$WT" && go build ./... >"$DIR/build.log" 2>&1); B=$?
(cd "$WT" && go test -vet=off -count=1 ./... >"$DIR/suite.log" 2>&1); S=$?
DW="n/a"; DWO="n/a"
if [ -n "$DEMO" ]; then DW=$(run_demo with); fi
rm -rf "$WT/demo"; git -C "$WT" checkout -- . && git -C "$WT" clean -fdq
if [ -n "$DEMO" ]; then DWO=$(run_demo without); rm -rf "$WT/demo"; fi
echo "SEED $DIR: build=$B suite=$S demo_with_change=$DW demo_without_change=$DWO"
if [ "$B" != 0 ] || [ "$S" != 0 ]; then echo "SEED $DIR: rejected (does not build or fails the existing suite)"; exit 0; fi
# 2. run the checks: against /repo (the prescribed way), or — SEED_ISOLATED=1, for regression
# sweeps that must not disturb /repo — against the scratch worktree with the change applied
if [ -n "${SEED_ISOLATED:-}" ]; then
  git -C "$WT" apply "$PATCH" || { echo "SEED: cannot apply to $WT"; exit 0; }
  export VERIF_REPO="$WT" VERIF_BIN="${SEED_BIN:-/tmp/seedbin}"
else
if [ -n "$(git -C /repo status --porcelain)" ]; then echo "SEED: /repo is not clean, refusing"; exit 0; fi
git -C /repo apply "$PATCH" || { echo "SEED: cannot apply to /repo"; exit 0; }
fi
for ID in "$@"; do
  s=$(date +%s)
  OUT="$(cd "$HERE" && VERIF_OUT=/tmp/seed-evidence ./check "$ID" "$TIER" 2>&1)"; RC=$?
  e=$(date +%s)
  NV=$(echo "$OUT" | grep -c '^VIOLATION')
  KIND=$(echo "$OUT" | grep -m1 -E '^  [a-z0-9-]+:' | cut -c1-200)
  echo "SEED $DIR: check=$ID tier=$TIER rc=$RC violations=$NV $((e-s))s  $KIND"
  echo "$OUT" | grep -v '^VIOLATION' | tail -15 > "$DIR/check_$ID.log"
done
if [ -n "${SEED_ISOLATED:-}" ]; then
  git -C "$WT" checkout -- . && git -C "$WT" clean -fdq
else
git -C /repo checkout -- . && git -C /repo clean -fdq
[ -z "$(git -C /repo status --porcelain)" ] || echo "SEED: WARNING /repo not clean after revert"
fi
