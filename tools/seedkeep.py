#!/usr/bin/env python3
"""Copies confirmed seeded changes from a lab directory into /verif/seeded/<id>/ with a meta.json
that records what was confirmed and which check reported it.
usage: seedkeep.py <seed-root> <summary.txt> [<summary.txt>...] [--suffix r2]"""
import json, os, re, shutil, sys
root = sys.argv[1]
suffix = ""
files = []
args = sys.argv[2:]
while args:
    a = args.pop(0)
    if a == "--suffix":
        suffix = args.pop(0)
    else:
        files.append(a)
res = {}
for f in files:
    for line in open(f):
        m = re.match(r"SEED (\S+): build=(\d+) suite=(\d+) demo_with_change=(\S+) demo_without_change=(\S+)", line)
        if m:
            res.setdefault(m.group(1), {}).update(build=m.group(2), suite=m.group(3), demo_with=m.group(4), demo_without=m.group(5))
        m = re.match(r"SEED (\S+): check=(\S+) tier=(\S+) rc=(\d+) violations=(\d+) (\d+)s\s*(.*)", line)
        if m:
            res.setdefault(m.group(1), {}).setdefault("checks", {})[m.group(2)] = dict(tier=m.group(3), rc=int(m.group(4)), violations=int(m.group(5)), seconds=int(m.group(6)), first=m.group(7)[:300])
kept = 0
for d, r in sorted(res.items()):
    if r.get("build") != "0" or r.get("suite") != "0" or r.get("demo_with") in ("0", "n/a") or r.get("demo_without") != "0":
        print("not kept (not confirmed):", d, r)
        continue
    prop, var = d.rstrip("/").split("/")[-2:]
    sid = f"{prop}-{var}{suffix}"
    out = os.path.join("/verif/seeded", sid)
    os.makedirs(out, exist_ok=True)
    shutil.copy(os.path.join(d, "patch.diff"), out)
    for n in ("demo_test.go",):
        if os.path.exists(os.path.join(d, n)):
            shutil.copy(os.path.join(d, n), out)
    meta = {}
    try:
        meta = json.load(open(os.path.join(d, "meta.json")))
    except Exception:
        pass
    old = {}
    if os.path.exists(os.path.join(out, "meta.json")):
        old = json.load(open(os.path.join(out, "meta.json")))
    checks = old.get("checks_run", {})
    checks.update(r.get("checks", {}))
    meta_out = {
        "id": sid, "property": prop, "origin": "independent sub-agent given only the property text and a scratch worktree",
        "summary": meta.get("summary"), "files_changed": meta.get("files_changed"), "needs_to_manifest": meta.get("needs_to_manifest"),
        "confirmed": {"builds": True, "existing_suite_passes_with_change": True, "demo_fails_with_change": True, "demo_passes_without_change": True,
                      "how": "tools/seedrun.sh: scratch worktree of /repo HEAD; git apply patch.diff; go build ./...; go test -vet=off -count=1 ./...; demo copied to demo/demo_test.go and run with go test ./demo/; patch reverted; demo run again"},
        "checks_run": checks,
        "detected_by": sorted(k for k, v in checks.items() if v["rc"] == 1 and v["violations"] > 0),
    }
    json.dump(meta_out, open(os.path.join(out, "meta.json"), "w"), indent=1, ensure_ascii=False)
    kept += 1
print("kept", kept)
