#!/usr/bin/env bash
# tools/seedall.sh <seed-root> [tier]: runs every <seed-root>/<id>/<variant> against its own property's check
ROOT="$1"; export SEED_TIER="${2:-quick}"
HERE="$(cd "$(dirname "${BASH_SOURCE[0]}")/.." && pwd)"
for d in "$ROOT"/C*/[A-Z]*; do
  [ -f "$d/patch.diff" ] || continue
  id=$(basename "$(dirname "$d")")
  "$HERE/tools/seedrun.sh" "$d" "$id" 2>&1 | grep '^SEED'
done
