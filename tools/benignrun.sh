#!/usr/bin/env bash
# tools/benignrun.sh <dir-with-patch.diff> <tag> [check ids...]   (lab tool, not a check)
# Applies a PROPERTY-PRESERVING change to a scratch worktree, confirms it builds and passes the
# repository's suite, and runs the given checks (default: all 20, quick tier) against that worktree
# (VERIF_REPO, isolated: /repo is not touched).  Every rc != 0 is a false alarm or an
# infrastructure weakness of the harness to be repaired.
set -u
export GOFLAGS=-mod=mod GOPROXY=off GOSUMDB=off GOTOOLCHAIN=local
HERE="$(cd "$(dirname "${BASH_SOURCE[0]}")/.." && pwd)"
DIR="$(cd "$1" && pwd)"; TAG="$2"; shift 2
IDS="${*:-C01 C02 C03 C04 C05 C06 C07 C08 C09 C10 C11 C12 C13 C14 C15 C16 C17 C18 C19 C20}"
WT="/tmp/benignwt-$TAG"; TIER="${SEED_TIER:-quick}"
[ -d "$WT" ] || git -C /repo worktree add --detach "$WT" HEAD -q || exit 1
git -C "$WT" checkout -q --detach "$(git -C /repo rev-parse HEAD)"; git -C "$WT" checkout -- . && git -C "$WT" clean -fdq
git -C "$WT" apply "$DIR/patch.diff" || { echo "BENIGN $TAG: patch does not apply"; exit 0; }
(cd "$WT" && go build ./... >"$DIR/build.log" 2>&1) || { echo "BENIGN $TAG: does not build"; exit 0; }
(cd "$WT" && go test -vet=off -count=1 ./... >"$DIR/suite.log" 2>&1) || { echo "BENIGN $TAG: fails the suite"; exit 0; }
export VERIF_REPO="$WT" VERIF_BIN="/tmp/benignbin-$TAG" VERIF_OUT="/tmp/benign-evidence-$TAG"
for ID in $IDS; do
  s=$(date +%s)
  OUT="$(cd "$HERE" && ./check "$ID" "$TIER" 2>&1)"; RC=$?
  e=$(date +%s)
  echo "BENIGN $TAG: check=$ID rc=$RC violations=$(echo "$OUT" | grep -c '^VIOLATION') infra=$(echo "$OUT" | grep -c '^INFRA') $((e-s))s"
  if [ "$RC" != 0 ] || echo "$OUT" | grep -q '^INFRA'; then echo "$OUT" | tail -40 > "$DIR/falsealarm_$ID.log"; fi
done
git -C /repo worktree remove --force "$WT"; rm -rf "$VERIF_BIN" "$VERIF_OUT"
