# Data for mkmanifest.py (python syntax).
HOOKS = {
    "guard": "verif",
    "enable": "no source hooks: private state is read by reflection; the package-level-variable dump (C15) and the scheduling points (C16) are generated at check time and injected with `go build -overlay`, /repo is never modified; the build tag `verif` is reserved but unused",
    "baseline_off_cmd": "cd /repo && go test -vet=off -count=1 ./...",
    "source_commits": [],
    "add_only": True,
}
ENGINES = [
    {"name": "ENUM", "path": "mc/cmd/cvssmc/enum_*.go", "serves_properties": ["C01", "C02", "C03", "C04", "C05", "C06", "C13", "C14"],
     "kind_free_text": "complete enumeration of a finite input domain on the real code against exact big.Rat oracles (DESIGN.md 5.1)"},
]
NOT_APPLICABLE = {}
NOTES = "All checks: ./check <id> quick|thorough, built from /repo's working tree via a module replace; violations are written to /verif/replays and re-run with ./check replay <file>. known_findings.txt lists genuine defects recorded rather than repaired."

ENUM_NOTE = "Trusted: the second transcription of the FIRST tables in mc/internal/spec, the big.Rat oracle in mc/internal/oracle, Go's math/big; the library is run as compiled from /repo's working tree. "

add("C02", "exploration", "bounded-exhaustive enumeration (explicit-state): the complete 518,400-vector domain through the real decoders vs an exact rational reference model",
    "Every (version, base, temporal) combination is decoded by the real temporal decoder (thorough: also by the environmental decoder) and its temporal score compared with an exact big.Rat oracle; the domain is finite and enumerated completely, so the result is a coverage statement, not a sample.",
    ENUM_NOTE, "5.1, 6 (C02)", "ENUM")
add("C03", "exploration", "bounded-exhaustive enumeration: complete effective-metric x temporal product and fallback lattices through the real decoder, complete version x base x environmental product (1.1e10) on assigned fields in the thorough tier, vs an exact rational reference model",
    "All effective combinations x all temporal combinations, the complete impact-side and exploitability-side fallback lattices (every vector through the real decoder), and in the thorough tier the complete 11,466,178,560-case product on directly assigned exported fields (premise cross-checked against real decodes).",
    ENUM_NOTE + "F-path premise: assigning exported fields of a decoded object equals decoding the vector (checked on a slice).", "5.1, 6 (C03)", "ENUM")
add("C04", "exploration", "bounded-exhaustive enumeration: all 73,629 v2 base/temporal vectors through all three real decoders vs an exact rational reference model",
    "The whole finite domain is enumerated through every decoder; exact halves admit both neighbours.",
    ENUM_NOTE, "5.1, 6 (C04), 7", "ENUM")
add("C05", "exploration", "bounded-exhaustive enumeration: all 141,441,309 v2 vectors (every group pair through the real decoder, base fields assigned) vs an exact rational reference model with a deviation model for the recorded finding",
    "The complete v2 domain in both tiers; failing cases are accepted only if the listed known finding D1 reproduces their value exactly.",
    ENUM_NOTE + "known_findings.txt entry D1.", "5.1, 6 (C05), 7", "ENUM")
add("C06", "exploration", "bounded-exhaustive enumeration of the C01-C05 domains with the grid/band oracle evaluated on every execution",
    "Grid, print format and severity band are checked on every case of the complete domains (v3 environmental product complete in the thorough tier, thinned in quick); attained band edges are recorded.",
    ENUM_NOTE, "6 (C06)", "ENUM")
add("C13", "exploration", "bounded-exhaustive enumeration of the complete temporal domains (v2, v3) and the complete v2 environmental domain with relational oracles",
    "Relations between two scores of the same vector, checked on every vector of the complete finite domains.",
    "Trusted: the harness' reading of the property's four relations.", "6 (C13)", "ENUM")
add("C14", "exploration", "bounded-exhaustive enumeration: complete temporal-level domains and environmental slices, each view compared with an independent lower-level decode (differential oracle)",
    "Differential oracle without a hand-written expected value: the embedded view vs a fresh lower-level decode of the projected vector, including the complete private state.",
    "Trusted: reflection-based state dump (mc/internal/dump).", "6 (C14)", "ENUM")
