# Data for mkmanifest.py (python syntax).
HOOKS = {
    "guard": "verif",
    "enable": "no source hooks: private state is read by reflection; the package-level-variable dump (C15) and the scheduling points (C16) are generated at check time and injected with `go build -overlay`, /repo is never modified; the build tag `verif` is reserved but unused",
    "baseline_off_cmd": "cd /repo && go test -vet=off -count=1 ./...",
    "source_commits": [],
    "add_only": True,
}
ENGINES = [
    {"name": "ENUM", "path": "mc/cmd/cvssmc/enum_*.go", "serves_properties": ["C01", "C02", "C03", "C04", "C05", "C06", "C13", "C14"],
     "kind_free_text": "complete enumeration of a finite input domain on the real code against exact big.Rat oracles (DESIGN.md 5.1)"},
]
NOT_APPLICABLE = {}
NOTES = "All checks: ./check <id> quick|thorough, built from /repo's working tree via a module replace; violations are written to /verif/replays and re-run with ./check replay <file>. known_findings.txt lists genuine defects recorded rather than repaired."

ENUM_NOTE = "Trusted: the second transcription of the FIRST tables in mc/internal/spec, the big.Rat oracle in mc/internal/oracle, Go's math/big; the library is run as compiled from /repo's working tree. "

add("C02", "exploration", "bounded-exhaustive enumeration (explicit-state): the complete 518,400-vector domain through the real decoders vs an exact rational reference model",
    "Every (version, base, temporal) combination is decoded by the real temporal decoder (thorough: also by the environmental decoder) and its temporal score compared with an exact big.Rat oracle; the domain is finite and enumerated completely, so the result is a coverage statement, not a sample.",
    ENUM_NOTE, "5.1, 6 (C02)", "ENUM")
add("C03", "exploration", "bounded-exhaustive enumeration: complete effective-metric x temporal product and fallback lattices through the real decoder, complete version x base x environmental product (1.1e10) on assigned fields in the thorough tier, vs an exact rational reference model",
    "All effective combinations x all temporal combinations, the complete impact-side and exploitability-side fallback lattices (every vector through the real decoder), and in the thorough tier the complete 11,466,178,560-case product on directly assigned exported fields (premise cross-checked against real decodes).",
    ENUM_NOTE + "F-path premise: assigning exported fields of a decoded object equals decoding the vector (checked on a slice).", "5.1, 6 (C03)", "ENUM")
add("C04", "exploration", "bounded-exhaustive enumeration: all 73,629 v2 base/temporal vectors through all three real decoders vs an exact rational reference model",
    "The whole finite domain is enumerated through every decoder; exact halves admit both neighbours.",
    ENUM_NOTE, "5.1, 6 (C04), 7", "ENUM")
add("C05", "exploration", "bounded-exhaustive enumeration: all 141,441,309 v2 vectors (every group pair through the real decoder, base fields assigned) vs an exact rational reference model with a deviation model for the recorded finding",
    "The complete v2 domain in both tiers; failing cases are accepted only if the listed known finding D1 reproduces their value exactly.",
    ENUM_NOTE + "known_findings.txt entry D1.", "5.1, 6 (C05), 7", "ENUM")
add("C06", "exploration", "bounded-exhaustive enumeration of the C01-C05 domains with the grid/band oracle evaluated on every execution",
    "Grid, print format and severity band are checked on every case of the complete domains (v3 environmental product complete in the thorough tier, thinned in quick); attained band edges are recorded.",
    ENUM_NOTE, "6 (C06)", "ENUM")
add("C13", "exploration", "bounded-exhaustive enumeration of the complete temporal domains (v2, v3) and the complete v2 environmental domain with relational oracles",
    "Relations between two scores of the same vector, checked on every vector of the complete finite domains.",
    "Trusted: the harness' reading of the property's four relations.", "6 (C13)", "ENUM")
add("C14", "exploration", "bounded-exhaustive enumeration: complete temporal-level domains and environmental slices, each view compared with an independent lower-level decode (differential oracle); plus short histories (views before decode, instalments, twin objects, refused continuations)",
    "Differential oracle without a hand-written expected value: the embedded view vs a fresh lower-level decode of the projected vector, including the complete private state.",
    "Trusted: reflection-based state dump (mc/internal/dump).", "6 (C14)", "ENUM")

ENGINES.append({"name": "GRAPH", "path": "mc/cmd/cvssmc/graph*.go", "serves_properties": ["C01", "C07", "C08", "C09", "C10", "C11", "C12"],
     "kind_free_text": "explicit-state breadth-first search of the real decoders (state = reflective dump of the decoder object + residue), every transition executed on the implementation and judged by a reference recogniser; stateless permutation sets, edit balls, all short byte strings (DESIGN.md 5.2)"})
GRAPH_NOTE = "Trusted: the reference recogniser/encoder mc/internal/lang (written from the property text), the specification tables mc/internal/spec, the hand-written code->constant table mc/internal/lib/enums.go, reflection-based state dumps. State merging is on the implementation's complete object state plus the residue only. "

add("C01", "model_checking", "explicit-state model checking of the real v3 base decoder over all values (138,240 states, every transition executed on the implementation) with the exact rational score oracle at every accepting transition, plus complete enumeration of the 5,184 vectors through all three decoders",
    "Complete closure: every reachable state of the base decoder over all values and both versions is expanded with every token of the alphabet, so every token order of every valid base vector is a path; the score oracle is exact (big.Rat).",
    GRAPH_NOTE + ENUM_NOTE, "5.2, 6 (C01)", "GRAPH+ENUM")
add("C07", "model_checking", "explicit-state model checking of the three v3 decoders against a reference recogniser (product of model and implementation, every transition validated on the implementation), plus stateless permutation sets (incl. complete 22-metric vectors in unusual arrangements), edit balls, all short byte strings, all foreign metric names of 1-3 letters, value lattices, wrapped/decorated inputs, vectors of the other version and second decodes on used decoders",
    "Acceptance is a property of the whole string language; the search executes every (state, token) transition of every expanded decoder state, so longer inputs only revisit explored transitions. Base decoder closed completely; temporal/environmental decoders closed per level over representative lower-level configurations.",
    GRAPH_NOTE, "5.2, 6 (C07)", "GRAPH")
add("C08", "model_checking", "explicit-state model checking of the three v2 decoders (seen-set x deferred x canonical-order residue) against a reference recogniser, plus group permutations, edit balls, all short byte strings, all 194,021 optional-group combinations, all foreign metric names of 1-3 letters, wrapped/decorated inputs and vectors offered in pieces to one decoder",
    "As C07 for v2; the residue additionally tracks whether first occurrences are in canonical order, which is what the decoder's final comparison with its re-encoding depends on.",
    GRAPH_NOTE, "5.2, 6 (C08)", "GRAPH")
add("C09", "model_checking", "explicit-state model checking of all six decoders with a field-level oracle at every accepting transition and path-independence (same token set => same observables) checked across all explored paths, plus complete enumeration of the temporal-level domains",
    "Fields are compared with hand-associated library constants at every accepting state; order independence follows from state merging plus the stateless permutation sets; explicit X vs omission compared on every vector (all omitted metrics at once) and one metric at a time for every base vector in five contexts; field values re-checked after every query and report.",
    GRAPH_NOTE, "5.2, 6 (C09)", "GRAPH+ENUM")
add("C10", "model_checking", "explicit-state model checking of all six decoders with the canonical-encoding oracle and decode-encode-decode identity at every accepting transition, plus complete enumeration of the temporal-level domains",
    "The reference encoder computes the canonical text from the token set alone; every accepted string of the graphs, permutation sets and enumerations is compared byte for byte and decoded again.",
    GRAPH_NOTE, "5.2, 6 (C10)", "GRAPH+ENUM")
add("C11", "model_checking", "explicit-state model checking of all six decoders against a defect classifier (admissible-sentinel sets) on every rejecting transition, plus a constructed single-defect catalogue, edit balls and all short byte strings",
    "Every rejected string must match exactly one exported sentinel and that sentinel must name a defect the reference finds in the input; single-defect inputs have singleton sets, so the reported kind is pinned exactly.",
    GRAPH_NOTE, "5.2, 6 (C11)", "GRAPH")
add("C12", "model_checking", "explicit-state model checking of all six decoders for totality (no panic, object xor error, nil-receiver agreement, sanity of every distinct object left behind by a failed decode), all byte strings <=5/6 over a 12-byte alphabet, 1 MiB inputs, observers on nil/fresh objects, single-field resets, objects filled through accessors or field assignment for every base vector, second decodes on used decoders; a Go runtime fatal error inside the library under the check's worker pool is a violation",
    "Totality over 'any string' rests on the closure of the decoder graphs (every transition of every expanded state executed) plus exhaustive short byte strings; receiver states are enumerated as nil, fresh, every distinct failed-decode state reached, and decoded objects with each field reset.",
    GRAPH_NOTE + "IsEmpty() on a nil v2 receiver is outside the property's operation list.", "5.2, 5.3, 6 (C12)", "GRAPH")

ENGINES.append({"name": "HIST", "path": "mc/cmd/cvssmc/hist.go, mc/cmd/gendump", "serves_properties": ["C15"],
     "kind_free_text": "breadth-first search over operation sequences on live objects; state key = reflective object dump + dump of every package-level variable (generated from the current tree, injected by -overlay); successors by replay; differential invariants between histories and against a pristine process (DESIGN.md 5.3); map-order explorer mc/cmd/sched/maporder.go on the instrumented build (DESIGN.md 10.4)"})
ENGINES.append({"name": "TMPL", "path": "mc/cmd/cvssmc/tmpl.go", "serves_properties": ["C19"],
     "kind_free_text": "all template programs up to a size over a small grammar against text/template as reference; every reader behaviour and every read-failure position (DESIGN.md 5.5)"})
ENGINES.append({"name": "TABLES", "path": "mc/cmd/cvssmc/tables.go, names.go, reports.go", "serves_properties": ["C17", "C18", "C20"],
     "kind_free_text": "complete enumeration of finite tables (codes, enum integers, weights, names x languages) and deviation-bounded enumeration of report inputs"})

add("C15", "model_checking", "explicit-state search over operation histories on live objects (depth 3/4) with state key = object dump + all package-level variables, successors by replay on the real code, differential invariants I1-I3; plus all processing orders of colliding vectors; plus exhaustive enumeration of map iteration orders as an environment choice (instrumented build: every range over a map asks the explorer for its order; every single range event of every catalogue operation deviates in turn, complete score domains under 24 uniform order policies)",
    "Every sequence of queries, single-field mutations and unrelated decodes up to the depth bound is executed from every start object (decoded, failed, fresh, nil); merging only on identical complete state (object + every package-level variable), so a hidden memo or shared table adds states instead of being missed.",
    "Trusted: reflective dump of objects and of the package-level variables of every non-main package of the current tree, enumerated by go/parser (mc/cmd/gendump). No expected values are assumed: results are compared between histories, between map iteration orders and with a pristine child process. If the instrumented build cannot be produced for a changed tree the map-order phase is skipped and says so.", "5.3, 6 (C15), 10.4", "HIST+SCHED(instrumenter)")
add("C17", "exploration", "deviation-bounded exhaustive enumeration: every vector within 2 (quick) / 3 (thorough) metric changes of 4 background vectors x 9 language settings x 3 report levels, every exported report field compared with a hand-wired oracle; every list of 1-3 language options, caller-owned option slices, 45 languages in one process",
    "Field wiring is per field, so two deviations already separate any two metrics; the field list is enumerated by reflection so that an uncovered field is an infrastructure error rather than silently skipped.",
    "Trusted: the field->metric wiring table in mc/cmd/cvssmc/reports.go, names.* as oracle for display names (C18), the exact score oracle.", "6 (C17)", "TABLES")
add("C18", "exploration", "complete enumeration of the finite name table: all 52 exported functions x all enumeration values (defined, zero, out-of-range) x 9,035 language tags, plus the language fallback through report option lists",
    "The domain is finite and enumerated completely; the function list is checked against a parse of the package.",
    "Trusted: the function table in mc/cmd/cvssmc/names.go; regional en-*/ja-* variants are unspecified by the property and unchecked.", "6 (C18)", "TABLES")
add("C19", "fault_enumeration", "bounded-exhaustive enumeration of template programs (all sequences of <=3/4 atoms over a 39-atom grammar, a catalogue of 40 larger programs) x 6 reports against text/template as reference, plus enumeration of every read-failure position and reader behaviour, templates across every buffer boundary 256..65536, readers drained after up to 70 further exports",
    "All programs up to the size bound, valid and invalid, and every failure position k<=len of the template reader; the oracle is the property's own definition (Go's text/template on the same value).",
    "Trusted: Go's text/template as reference. Typed-nil readers are outside the property.", "5.5, 6 (C19)", "TMPL")
add("C20", "exploration", "complete enumeration of finite tables: 36 metrics + 2 version parsers x (all codes, all strings of length <=3 over A-Z0-9, joined, padded, full-width and look-alike variants of every code as non-codes, all enumeration integers, all weight contexts)",
    "Finite tables enumerated completely against the second transcription of the specification.",
    ENUM_NOTE, "6 (C20)", "TABLES")

ENGINES.append({"name": "SCHED", "path": "sched/instr (AST rewriter), sched/verifsched (controlled scheduler + sync/atomic shims), mc/cmd/sched (explorer), mc/cmd/racepass, mc/internal/scen",
     "serves_properties": ["C16"],
     "kind_free_text": "stateless depth-first enumeration of all schedules of small closed drivers up to a preemption bound (iterative context bounding) on the real code, instrumented at check time with a scheduling point before every statement that can touch shared state; plus a free-running -race pass (DESIGN.md 5.4)"})
add("C16", "model_checking", "stateless model checking of the real code under a controlled scheduler: all schedules of 500 two-/three-thread scenarios up to preemption bound 1/2 (iterative context bounding, static partial-order reduction of local-only statements), results compared with the sequential run; plus a separate free-running race-detector pass",
    "Every schedule with at most 1 preemption for every pair of the 20-operation catalogue (shared and distinct receivers), six mixed 3-thread scenarios, every multiset of three short queries on one shared object five bulk scenarios (20 operations in one thread against one in the other, export readers drained after a driver pause) and six tiny-decode scenarios, at most 2 preemptions for short operations (quick) / all scenarios (thorough); determinism of replay is checked on every scenario.",
    "Assumes statement-level atomicity and sequential consistency; code outside the library packages is atomic between scheduling points; the race detector pass is sampling, not exhaustive. If the instrumented build cannot be produced for a changed tree the check degrades to the race pass alone and says so.", "5.4, 6 (C16)", "SCHED")
