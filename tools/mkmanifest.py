#!/usr/bin/env python3
"""Regenerates /verif/MANIFEST.json from the table below (kept in one place so that the
manifest, the check list and the not_applicable list cannot drift apart)."""
import json, os, sys

ROOT = os.path.dirname(os.path.dirname(os.path.abspath(__file__)))

# id -> (category, technique, level text, level note, design ref, engine)
CHECKS = {}

def add(id, cat, technique, text, note, ref, engine):
    CHECKS[id] = dict(cat=cat, technique=technique, text=text, note=note, ref=ref, engine=engine)

exec(open(os.path.join(ROOT, "tools", "checks_table.py")).read())

props = [json.loads(l) for l in open(os.path.join(ROOT, "properties.jsonl"))]
checks, na = [], []
for p in props:
    id = p["id"]
    if id in CHECKS:
        c = CHECKS[id]
        checks.append({
            "property_id": id,
            "quick_cmd": f"./check {id} quick",
            "thorough_cmd": f"./check {id} thorough",
            "evidence_file": f"/verif/evidence/{id}.json",
            "replay_cmd_template": "./check replay {path}",
            "engine": c["engine"],
            "level_claimed": {"category": c["cat"], "text": c["text"], "design_ref": c["ref"]},
            "level_note": c["note"],
            "technique": c["technique"],
        })
    else:
        na.append({"property_id": id, "reason": NOT_APPLICABLE.get(id, "check not built yet in this session (planned: DESIGN.md section 6)")})

manifest = {
    "version": 1,
    "setup_cmd": "./setup.sh",
    "hooks": HOOKS,
    "engines": ENGINES,
    "checks": checks,
    "not_applicable": na,
    "notes": NOTES,
}
json.dump(manifest, open(os.path.join(ROOT, "MANIFEST.json"), "w"), indent=1)
print("MANIFEST.json:", len(checks), "checks,", len(na), "not applicable")
