#!/usr/bin/env python3
"""Prints the DESIGN.md table rows for the seeded changes whose id ends with the given suffix."""
import json, glob, os, sys
suffix = sys.argv[1]
for d in sorted(glob.glob("/verif/seeded/C*" + suffix)):
    m = json.load(open(os.path.join(d, "meta.json")))
    s = (m.get("summary") or "").replace("|", "/").replace("\n", " ")
    print(f"| {m['id']} | {s[:200]} | {', '.join(m['detected_by'])} |")
