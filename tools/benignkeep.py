#!/usr/bin/env python3
"""Copies the property-preserving changes (patch, demonstration, the agent's summary) and what the
checks said about them into /verif/seeded/_benign/<name>/ and prints the DESIGN.md table."""
import glob, json, os, re, shutil
names = {"b1_1": "benign1/1", "b1_2": "benign1/2", "b2_1": "benign2/1", "b2_2": "benign2/2", "b3_1": "benign3/1", "b3_2": "benign3/2", "b4_1": "benign4/1", "b4_2": "benign4/2",
         "b5_1": "benign5/1", "b5_2": "benign5/2", "b6_1": "benign6/1", "b6_2": "benign6/2", "b7_1": "benign7/1", "b7_2": "benign7/2", "b8_1": "benign8/1", "b8_2": "benign8/2",
         "b9_1": "benign9/1", "b9_2": "benign9/2", "b10_1": "benign10/1", "b10_2": "benign10/2", "b11_1": "benign11/1", "b11_2": "benign11/2"}
alias = {"c1_1": "b1_1", "c4_2": "b4_2", "c2_2": "b2_2"}
runs = {}
for f in sorted(glob.glob("/tmp/benign2_*.log")) + sorted(glob.glob("/tmp/benign3_*.log")):
    for line in open(f, errors="replace"):
        m = re.match(r"BENIGN (\S+): check=(\S+) rc=(\d+) violations=(\d+) infra=(\d+) (\d+)s", line)
        if m:
            tag = alias.get(m.group(1), m.group(1))
            runs.setdefault(tag, []).append(dict(check=m.group(2), rc=int(m.group(3)), violations=int(m.group(4)), infra_lines=int(m.group(5)), seconds=int(m.group(6)), snapshot=os.path.basename(f)))
rows = ["| change | what it does (first line of the agent's summary) | checks run against it | alarms |", "|---|---|---|---|"]
for tag, rel in names.items():
    src = os.path.join("/tmp/wt/out", rel)
    if not os.path.exists(os.path.join(src, "patch.diff")):
        continue
    out = os.path.join("/verif/seeded/_benign", rel.replace("/", "-"))
    os.makedirs(out, exist_ok=True)
    for n in ("patch.diff", "demo_test.go", "summary.txt"):
        if os.path.exists(os.path.join(src, n)):
            shutil.copy(os.path.join(src, n), out)
    rs = runs.get(tag, [])
    json.dump({"id": rel.replace("/", "-"), "kind": "property-preserving change (independent sub-agent given all 20 property texts)", "checks_run": rs,
               "alarms": [r for r in rs if r["rc"] != 0 or r["infra_lines"] != 0]}, open(os.path.join(out, "meta.json"), "w"), indent=1)
    summ = ""
    if os.path.exists(os.path.join(src, "summary.txt")):
        summ = " ".join(open(os.path.join(src, "summary.txt"), errors="replace").read().split())[:170].replace("|", "/")
    al = [f"{r['check']} rc={r['rc']}" for r in rs if r["rc"] != 0 or r["infra_lines"] != 0]
    rows.append(f"| {rel.replace('/', '-')} | {summ} | {', '.join(sorted(set(r['check'] for r in rs)))} | {', '.join(al) or 'none'} |")
print("\n".join(rows))
