#!/usr/bin/env python3
"""Round 6: copies the staged, confirmed changes into /verif/seeded/<id>-r6/ with a meta.json that
records the confirmation, what the check of the property reported as it stood at the start of the
round (seed.log) and what the checks report after the round's additions (pass2.log, lab_*.log)."""
import json, os, re, shutil, glob, sys
root = sys.argv[1] if len(sys.argv) > 1 else "/tmp/wt/stage"
RND = sys.argv[2] if len(sys.argv) > 2 else "6"
kept = 0
for d in sorted(glob.glob(root + "/C*/[AB]")):
    prop, var = d.split("/")[-2:]
    sid = f"{prop}-{var}-r{RND}"
    seed = open(os.path.join(d, "seed.log"), errors="replace").read() if os.path.exists(os.path.join(d, "seed.log")) else ""
    m = re.search(r"build=(\d+) suite=(\d+) demo_with_change=(\S+) demo_without_change=(\S+)", seed)
    if not m or m.group(1) != "0" or m.group(2) != "0" or m.group(3) in ("0", "n/a") or m.group(4) != "0":
        print("not confirmed:", d, m.groups() if m else None)
        continue
    asstood = {}
    for mm in re.finditer(r"check=(\S+) tier=(\S+) rc=(\d+) violations=(\d+) (\d+)s[ \t]*(.*)", seed):
        asstood[mm.group(1)] = dict(rc=int(mm.group(3)), violations=int(mm.group(4)), seconds=int(mm.group(5)), first=mm.group(6)[:300])
    after = {}
    for f in glob.glob(os.path.join(d, "pass2.log")) + glob.glob(os.path.join(d, "lab_run*.log")):
        for mm in re.finditer(r"LAB \S+ check=(\S+) rc=(\d+) violations=(\d+) (\d+)s[ \t]*(.*)", open(f, errors="replace").read()):
            after[mm.group(1)] = dict(rc=int(mm.group(2)), violations=int(mm.group(3)), seconds=int(mm.group(4)), first=mm.group(5)[:300])
    meta = json.load(open(os.path.join(d, "meta.json")))
    out = os.path.join("/verif/seeded", sid)
    os.makedirs(out, exist_ok=True)
    shutil.copy(os.path.join(d, "patch.diff"), out)
    shutil.copy(os.path.join(d, "demo_test.go"), out)
    det0 = sorted(k for k, v in asstood.items() if v["rc"] == 1 and v["violations"] > 0)
    det1 = sorted(set(det0) | set(k for k, v in after.items() if v["rc"] == 1 and v["violations"] > 0))
    json.dump({
        "id": sid, "property": prop, "origin": "independent sub-agent given only the property text and a scratch worktree (round " + RND + ")",
        "summary": meta.get("summary"), "needs_to_manifest": meta.get("needs"), "demo_flags": meta.get("demo_flags", ""), "why_tests_pass": meta.get("why_tests_pass"),
        "confirmed": {"builds": True, "existing_suite_passes_with_change": True, "demo_fails_with_change": True, "demo_passes_without_change": True,
                      "how": "tools/seedrun.sh: scratch worktree of /repo HEAD; git apply patch.diff; go build ./...; go test -vet=off -count=1 ./...; demo copied to demo/demo_test.go and run with go test ./demo/; patch reverted; demo run again"},
        ("checks_run_as_they_stood_at_the_start_of_round_6" if RND == "6" else "checks_run_first"): asstood,
        ("checks_run_after_the_round_6_additions" if RND == "6" else "checks_run_after_further_additions"): after,
        ("detected_at_the_start_of_round_6_by" if RND == "6" else "detected_in_the_first_run_by"): det0,
        "detected_by": det1,
        "notes": [l[6:].strip() for l in seed.splitlines() if l.startswith("NOTE: ")],
    }, open(os.path.join(out, "meta.json"), "w"), indent=1, ensure_ascii=False)
    kept += 1
print("kept", kept)
