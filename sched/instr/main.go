// instr generates the instrumented build of go-cvss used by the SCHED engine, without touching
// the repository: every rewritten file goes to <outdir> and <outdir>/overlay.json maps the
// original path to it (`go build -overlay`).  Rewrites (DESIGN.md §5.4):
//
//   - verifsched.Yield(site) before every statement of every function;
//   - every range over a map (decided by the type checker) becomes a range over its sorted keys;
//   - imports of sync and sync/atomic are redirected to the scheduler-aware shims;
//   - the virtual packages github.com/goark/go-cvss/verifsched{,/vsync,/vatomic} are added.
//
// usage: instr <repo> <outdir> <verifsched-src-dir>
package main

import (
	"bytes"
	"encoding/json"
	"fmt"
	"go/ast"
	"go/format"
	"go/token"
	"go/types"
	"os"
	"path/filepath"
	"sort"
	"strconv"
	"strings"

	"golang.org/x/tools/go/ast/astutil"
	"golang.org/x/tools/go/packages"
)

const (
	modPath   = "github.com/goark/go-cvss"
	schedPath = modPath + "/verifsched"
)

// libPath: the import paths of the instrumented packages (filled in main before any rewriting).
var libPath = map[string]bool{}

// isLib: every non-main package of the module is instrumented (so a helper package added by a
// change gets scheduling points too); the virtual harness packages are not.
func isLib(p *packages.Package) bool {
	if p.Name == "main" || !(p.PkgPath == modPath || strings.HasPrefix(p.PkgPath, modPath+"/")) {
		return false
	}
	return !strings.HasPrefix(p.PkgPath, schedPath) && !strings.HasPrefix(p.PkgPath, modPath+"/verifreg")
}

func die(format string, a ...any) {
	fmt.Fprintf(os.Stderr, "instr: "+format+"\n", a...)
	os.Exit(1)
}

func main() {
	if len(os.Args) != 4 {
		die("usage: instr <repo> <outdir> <verifsched-src-dir>")
	}
	repo, out, schedSrc := os.Args[1], os.Args[2], os.Args[3]
	overlay := map[string]string{}
	if b, err := os.ReadFile(filepath.Join(out, "overlay.json")); err == nil {
		var o struct{ Replace map[string]string }
		if json.Unmarshal(b, &o) == nil {
			for k, v := range o.Replace {
				overlay[k] = v
			}
		}
	}
	cfg := &packages.Config{Mode: packages.NeedName | packages.NeedFiles | packages.NeedCompiledGoFiles | packages.NeedSyntax | packages.NeedTypes | packages.NeedTypesInfo | packages.NeedImports | packages.NeedDeps, Dir: repo}
	pkgs, err := packages.Load(cfg, "./...")
	if err != nil {
		die("load: %v", err)
	}
	sort.Slice(pkgs, func(i, j int) bool { return pkgs[i].PkgPath < pkgs[j].PkgPath })
	for _, p := range pkgs {
		if isLib(p) {
			libPath[p.PkgPath] = true
		}
	}
	site, ranges, redirected, files, elided := 0, 0, 0, 0, 0
	allYields := os.Getenv("VERIF_INSTR_ALL_YIELDS") != ""
	for _, p := range pkgs {
		if !isLib(p) {
			continue
		}
		if len(p.Errors) > 0 {
			die("package %s does not type-check: %v", p.PkgPath, p.Errors)
		}
		for i, f := range p.Syntax {
			fn := p.CompiledGoFiles[i]
			src, err := os.ReadFile(fn)
			if err != nil {
				die("%v", err)
			}
			if bytes.Contains(src, []byte("//go:embed")) || bytes.Contains(src, []byte("import \"C\"")) {
				die("%s uses go:embed or cgo, which the rewriter does not support", fn)
			}
			// 1. deterministic map ranges
			var unsupported string
			astutil.Apply(f, func(c *astutil.Cursor) bool {
				rs, ok := c.Node().(*ast.RangeStmt)
				if !ok {
					return true
				}
				t := p.TypesInfo.TypeOf(rs.X)
				if t == nil {
					return true
				}
				mt, ok := t.Underlying().(*types.Map)
				if !ok {
					return true
				}
				if rs.Key == nil {
					return true // `for range m`: the order is unobservable
				}
				if rs.Tok != token.DEFINE {
					unsupported = p.Fset.Position(rs.Pos()).String() + ": range over a map with '=' assignment"
					return true
				}
				helper := "SortedKeys"
				if b, ok := mt.Key().Underlying().(*types.Basic); ok {
					switch {
					case b.Info()&types.IsInteger != 0:
						helper = "SortedIntKeys"
					case b.Info()&types.IsString != 0:
						helper = "SortedStringKeys"
					}
				}
				keyName := "verifK"
				if id, ok := rs.Key.(*ast.Ident); ok && id.Name != "_" {
					keyName = id.Name
				}
				newBody := []ast.Stmt{}
				if rs.Value != nil {
					if id, ok := rs.Value.(*ast.Ident); ok && id.Name != "_" {
						newBody = append(newBody, &ast.AssignStmt{Lhs: []ast.Expr{ast.NewIdent(id.Name)}, Tok: token.DEFINE, Rhs: []ast.Expr{&ast.IndexExpr{X: rs.X, Index: ast.NewIdent(keyName)}}})
						newBody = append(newBody, &ast.AssignStmt{Lhs: []ast.Expr{ast.NewIdent("_")}, Tok: token.ASSIGN, Rhs: []ast.Expr{ast.NewIdent(id.Name)}})
					}
				}
				newBody = append(newBody, &ast.AssignStmt{Lhs: []ast.Expr{ast.NewIdent("_")}, Tok: token.ASSIGN, Rhs: []ast.Expr{ast.NewIdent(keyName)}})
				newBody = append(newBody, rs.Body.List...)
				c.Replace(&ast.RangeStmt{Key: ast.NewIdent("_"), Value: ast.NewIdent(keyName), Tok: token.DEFINE,
					X:    &ast.CallExpr{Fun: &ast.SelectorExpr{X: ast.NewIdent("verifsched"), Sel: ast.NewIdent(helper)}, Args: []ast.Expr{rs.X}},
					Body: &ast.BlockStmt{List: newBody}})
				ranges++
				return true
			}, nil)
			if unsupported != "" {
				die("%s", unsupported)
			}
			// 2. yields before every statement that may touch state another thread can see
			// (static partial-order reduction: a statement that only reads and writes
			// non-escaping locals commutes with every statement of every other thread, so it is
			// merged with its successor; see localOnly)
			fa := analyseFuncs(f, p.TypesInfo)
			ins := func(list []ast.Stmt) []ast.Stmt {
				outl := make([]ast.Stmt, 0, 2*len(list))
				for _, s := range list {
					if !allYields && fa.localOnly(s) {
						elided++
						outl = append(outl, s)
						continue
					}
					site++
					outl = append(outl, &ast.ExprStmt{X: &ast.CallExpr{Fun: &ast.SelectorExpr{X: ast.NewIdent("verifsched"), Sel: ast.NewIdent("Yield")}, Args: []ast.Expr{&ast.BasicLit{Kind: token.INT, Value: strconv.Itoa(site)}}}})
					outl = append(outl, s)
				}
				return outl
			}
			skip := map[*ast.BlockStmt]bool{}
			ast.Inspect(f, func(n ast.Node) bool {
				switch x := n.(type) {
				case *ast.SwitchStmt:
					skip[x.Body] = true
				case *ast.TypeSwitchStmt:
					skip[x.Body] = true
				case *ast.SelectStmt:
					skip[x.Body] = true
				case *ast.BlockStmt:
					if !skip[x] {
						x.List = ins(x.List)
					}
				case *ast.CaseClause:
					x.Body = ins(x.Body)
				case *ast.CommClause:
					x.Body = ins(x.Body)
				}
				return true
			})
			// 3. sync / sync/atomic -> shims (the package names stay sync / atomic)
			for _, im := range f.Imports {
				switch strings.Trim(im.Path.Value, `"`) {
				case "sync":
					im.Path.Value = strconv.Quote(schedPath + "/vsync")
					if im.Name == nil {
						im.Name = ast.NewIdent("sync")
					}
					redirected++
				case "sync/atomic":
					im.Path.Value = strconv.Quote(schedPath + "/vatomic")
					if im.Name == nil {
						im.Name = ast.NewIdent("atomic")
					}
					redirected++
				}
			}
			// keep build constraints, drop all other comments (their positions are stale)
			var constraints []string
			for _, line := range strings.Split(string(src), "\n") {
				t := strings.TrimSpace(line)
				if strings.HasPrefix(t, "package ") {
					break
				}
				if strings.HasPrefix(t, "//go:build") || strings.HasPrefix(t, "// +build") {
					constraints = append(constraints, t)
				}
			}
			f.Comments = nil
			f.Doc = nil
			astutil.AddNamedImport(p.Fset, f, "verifsched", schedPath)
			var buf bytes.Buffer
			for _, c := range constraints {
				buf.WriteString(c + "\n")
			}
			if len(constraints) > 0 {
				buf.WriteString("\n")
			}
			if err := format.Node(&buf, p.Fset, f); err != nil {
				die("format %s: %v", fn, err)
			}
			buf.WriteString("\nvar _ = verifsched.Yield\n")
			rel, _ := filepath.Rel(repo, fn)
			gen := filepath.Join(out, "instr_"+strings.ReplaceAll(rel, string(filepath.Separator), "_"))
			if err := os.WriteFile(gen, buf.Bytes(), 0o644); err != nil {
				die("%v", err)
			}
			overlay[fn] = gen
			files++
		}
	}
	// 4. the virtual scheduler packages
	for _, sub := range []string{"", "vsync", "vatomic"} {
		ents, err := os.ReadDir(filepath.Join(schedSrc, sub))
		if err != nil {
			die("%v", err)
		}
		for _, e := range ents {
			if e.IsDir() || !strings.HasSuffix(e.Name(), ".go") {
				continue
			}
			overlay[filepath.Join(repo, "verifsched", sub, e.Name())] = filepath.Join(schedSrc, sub, e.Name())
		}
	}
	j, _ := json.MarshalIndent(map[string]any{"Replace": overlay}, "", " ")
	if err := os.WriteFile(filepath.Join(out, "overlay.json"), j, 0o644); err != nil {
		die("%v", err)
	}
	fmt.Printf("instr: files=%d sites=%d local_only_statements_merged=%d map_ranges=%d sync_imports_redirected=%d\n", files, site, elided, ranges, redirected)
}

// ---------------------------------------------------------------------------------------------
// static independence: which statements touch only thread-local state

type funcAnalysis struct {
	info    *types.Info
	tainted map[types.Object]bool // locals whose address is taken or that a closure captures
}

// pure functions of the standard library that read only their (immutable or by-value) arguments
var pureFuncs = map[string]bool{
	"strings.Split": true, "strings.Join": true, "strings.ToUpper": true, "strings.ToLower": true, "strings.TrimSpace": true,
	"strings.HasPrefix": true, "strings.HasSuffix": true, "strings.Contains": true, "strings.Index": true, "strings.EqualFold": true,
	"math.Pow": true, "math.Min": true, "math.Max": true, "math.Round": true, "math.Floor": true, "math.Ceil": true, "math.Abs": true, "math.Trunc": true,
	"strconv.Itoa": true, "strconv.FormatFloat": true, "strconv.Quote": true,
}

func analyseFuncs(f *ast.File, info *types.Info) *funcAnalysis {
	fa := &funcAnalysis{info: info, tainted: map[types.Object]bool{}}
	ast.Inspect(f, func(n ast.Node) bool {
		switch x := n.(type) {
		case *ast.UnaryExpr:
			if x.Op == token.AND {
				ast.Inspect(x.X, func(m ast.Node) bool {
					if id, ok := m.(*ast.Ident); ok {
						if o := info.Uses[id]; o != nil {
							fa.tainted[o] = true
						}
					}
					return true
				})
			}
		case *ast.FuncLit:
			ast.Inspect(x.Body, func(m ast.Node) bool {
				if id, ok := m.(*ast.Ident); ok {
					if o := info.Uses[id]; o != nil {
						fa.tainted[o] = true
					}
				}
				return true
			})
		}
		return true
	})
	return fa
}

// localOnly reports whether the statement (its own expressions, not the bodies nested in it)
// provably reads and writes nothing but non-escaping local variables.  Conservative: anything
// not recognised needs a scheduling point.
func (fa *funcAnalysis) localOnly(s ast.Stmt) bool {
	var exprs []ast.Expr
	switch x := s.(type) {
	case *ast.AssignStmt:
		exprs = append(append(exprs, x.Lhs...), x.Rhs...)
	case *ast.ExprStmt:
		exprs = append(exprs, x.X)
	case *ast.IncDecStmt:
		exprs = append(exprs, x.X)
	case *ast.ReturnStmt:
		exprs = append(exprs, x.Results...)
	case *ast.IfStmt:
		if x.Init != nil && !fa.localOnly(x.Init) {
			return false
		}
		exprs = append(exprs, x.Cond)
	case *ast.SwitchStmt:
		if x.Init != nil && !fa.localOnly(x.Init) {
			return false
		}
		if x.Tag != nil {
			exprs = append(exprs, x.Tag)
		}
		for _, c := range x.Body.List {
			exprs = append(exprs, c.(*ast.CaseClause).List...)
		}
	case *ast.DeclStmt:
		gd, ok := x.Decl.(*ast.GenDecl)
		if !ok {
			return false
		}
		if gd.Tok != token.VAR {
			return gd.Tok == token.CONST || gd.Tok == token.TYPE
		}
		for _, sp := range gd.Specs {
			exprs = append(exprs, sp.(*ast.ValueSpec).Values...)
		}
	case *ast.EmptyStmt, *ast.BranchStmt:
		return true
	default:
		// block, for, range, go, defer, send, select, type switch, labeled, …
		return false
	}
	for _, e := range exprs {
		if e != nil && !fa.localExpr(e) {
			return false
		}
	}
	return true
}

func (fa *funcAnalysis) localExpr(e ast.Expr) bool {
	ok := true
	ast.Inspect(e, func(n ast.Node) bool {
		if !ok {
			return false
		}
		switch x := n.(type) {
		case *ast.Ident:
			o := fa.info.Uses[x]
			if o == nil {
				o = fa.info.Defs[x]
			}
			if v, isVar := o.(*types.Var); isVar {
				if v.IsField() {
					return true // judged at the selector
				}
				if v.Pkg() == nil || v.Parent() == nil || v.Parent() == v.Pkg().Scope() || fa.tainted[o] {
					ok = false // package-level variable, or an escaping local
				}
			}
		case *ast.SelectorExpr:
			if sel := fa.info.Selections[x]; sel != nil {
				if sel.Indirect() {
					ok = false // field or method reached through a pointer
				} else if t := fa.info.TypeOf(x.X); t != nil {
					if _, isPtr := t.Underlying().(*types.Pointer); isPtr {
						ok = false
					}
				}
			}
			// qualified identifiers (pkg.Name) are judged as identifiers / calls
		case *ast.StarExpr:
			if tv, found := fa.info.Types[x]; !found || !tv.IsType() {
				ok = false
			}
		case *ast.IndexExpr:
			if t := fa.info.TypeOf(x.X); t != nil {
				switch t.Underlying().(type) {
				case *types.Map, *types.Slice, *types.Pointer:
					ok = false
				}
			} else {
				ok = false
			}
		case *ast.SliceExpr:
			ok = false
		case *ast.UnaryExpr:
			if x.Op == token.ARROW || x.Op == token.AND {
				ok = false
			}
		case *ast.FuncLit:
			ok = false
		case *ast.CallExpr:
			if tv, found := fa.info.Types[x.Fun]; found && tv.IsType() {
				return true // conversion
			}
			switch fn := x.Fun.(type) {
			case *ast.Ident:
				switch o := fa.info.Uses[fn].(type) {
				case *types.Builtin:
					if o.Name() == "len" || o.Name() == "cap" || o.Name() == "min" || o.Name() == "max" {
						return true
					}
					ok = false
				case *types.Func:
					// a function of an instrumented package: it yields at its own statements
					if o.Pkg() != nil && libPath[o.Pkg().Path()] {
						return true
					}
					ok = false
				default:
					ok = false
				}
			case *ast.SelectorExpr:
				if o, isFn := fa.info.Uses[fn.Sel].(*types.Func); isFn && o.Pkg() != nil {
					if sig, _ := o.Type().(*types.Signature); sig != nil && sig.Recv() == nil {
						if pureFuncs[o.Pkg().Name()+"."+o.Name()] || libPath[o.Pkg().Path()] {
							return true
						}
					} else if libPath[o.Pkg().Path()] {
						// method of an instrumented type: yields inside; its receiver expression is
						// judged by the other rules
						return true
					}
				}
				ok = false
			default:
				ok = false
			}
		}
		return ok
	})
	return ok
}
