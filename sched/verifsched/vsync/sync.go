// Package sync is the scheduler-aware stand-in for the standard library's sync package: the
// instrumenter redirects `import "sync"` of library files to it, so that a change which adds
// locking is explored (blocking = thread disabled, every operation = scheduling point) instead
// of dead-locking the cooperative scheduler.
package sync

import (
	"github.com/goark/go-cvss/verifsched"
)

// site numbers of shim operations (negative: distinguishes them from statement sites)
const (
	siteLock = -(iota + 1)
	siteUnlock
	siteRLock
	siteRUnlock
	siteOnce
	siteWait
	siteWG
	sitePool
	siteMap
	siteCond
)

type Locker interface {
	Lock()
	Unlock()
}

type Mutex struct{ locked bool }

func (m *Mutex) Lock() {
	verifsched.Block(siteLock, func() bool { return !m.locked })
	m.locked = true
}

func (m *Mutex) TryLock() bool {
	verifsched.Yield(siteLock)
	if m.locked {
		return false
	}
	m.locked = true
	return true
}

func (m *Mutex) Unlock() {
	verifsched.Yield(siteUnlock)
	if !m.locked {
		panic("sync: unlock of unlocked mutex")
	}
	m.locked = false
}

type RWMutex struct {
	writer  bool
	readers int
}

func (m *RWMutex) Lock() {
	verifsched.Block(siteLock, func() bool { return !m.writer && m.readers == 0 })
	m.writer = true
}
func (m *RWMutex) Unlock() {
	verifsched.Yield(siteUnlock)
	if !m.writer {
		panic("sync: Unlock of unlocked RWMutex")
	}
	m.writer = false
}
func (m *RWMutex) RLock() {
	verifsched.Block(siteRLock, func() bool { return !m.writer })
	m.readers++
}
func (m *RWMutex) RUnlock() {
	verifsched.Yield(siteRUnlock)
	if m.readers == 0 {
		panic("sync: RUnlock of unlocked RWMutex")
	}
	m.readers--
}
func (m *RWMutex) TryLock() bool {
	verifsched.Yield(siteLock)
	if m.writer || m.readers > 0 {
		return false
	}
	m.writer = true
	return true
}
func (m *RWMutex) TryRLock() bool {
	verifsched.Yield(siteRLock)
	if m.writer {
		return false
	}
	m.readers++
	return true
}
func (m *RWMutex) RLocker() Locker { return (*rlocker)(m) }

type rlocker RWMutex

func (r *rlocker) Lock()   { (*RWMutex)(r).RLock() }
func (r *rlocker) Unlock() { (*RWMutex)(r).RUnlock() }

// Once: Do blocks other callers until the first call has returned, like the real one.
type Once struct {
	done    bool
	running bool
}

func (o *Once) Do(f func()) {
	verifsched.Yield(siteOnce)
	if o.done {
		return
	}
	verifsched.Block(siteOnce, func() bool { return !o.running })
	if o.done {
		return
	}
	o.running = true
	defer func() {
		o.done = true
		o.running = false
	}()
	f()
}

func OnceFunc(f func()) func() {
	var o Once
	return func() { o.Do(f) }
}

func OnceValue[T any](f func() T) func() T {
	var o Once
	var v T
	return func() T {
		o.Do(func() { v = f() })
		return v
	}
}

func OnceValues[T1, T2 any](f func() (T1, T2)) func() (T1, T2) {
	var o Once
	var v1 T1
	var v2 T2
	return func() (T1, T2) {
		o.Do(func() { v1, v2 = f() })
		return v1, v2
	}
}

type WaitGroup struct{ n int }

func (w *WaitGroup) Add(d int) {
	verifsched.Yield(siteWG)
	w.n += d
	if w.n < 0 {
		panic("sync: negative WaitGroup counter")
	}
}
func (w *WaitGroup) Done() { w.Add(-1) }
func (w *WaitGroup) Wait() { verifsched.Block(siteWait, func() bool { return w.n == 0 }) }

// Pool is a deterministic free list (LIFO).
type Pool struct {
	New   func() any
	items []any
}

func (p *Pool) Get() any {
	verifsched.Yield(sitePool)
	if n := len(p.items); n > 0 {
		x := p.items[n-1]
		p.items = p.items[:n-1]
		return x
	}
	if p.New != nil {
		return p.New()
	}
	return nil
}
func (p *Pool) Put(x any) {
	verifsched.Yield(sitePool)
	if x != nil {
		p.items = append(p.items, x)
	}
}

// Map: every operation is atomic and a scheduling point; Range iterates in insertion order.
type Map struct {
	m    map[any]any
	keys []any
}

func (m *Map) Load(k any) (any, bool) {
	verifsched.Yield(siteMap)
	v, ok := m.m[k]
	return v, ok
}
func (m *Map) Store(k, v any) {
	verifsched.Yield(siteMap)
	m.store(k, v)
}
func (m *Map) store(k, v any) {
	if m.m == nil {
		m.m = map[any]any{}
	}
	if _, ok := m.m[k]; !ok {
		m.keys = append(m.keys, k)
	}
	m.m[k] = v
}
func (m *Map) LoadOrStore(k, v any) (any, bool) {
	verifsched.Yield(siteMap)
	if old, ok := m.m[k]; ok {
		return old, true
	}
	m.store(k, v)
	return v, false
}
func (m *Map) LoadAndDelete(k any) (any, bool) {
	verifsched.Yield(siteMap)
	v, ok := m.m[k]
	m.del(k)
	return v, ok
}
func (m *Map) Delete(k any) {
	verifsched.Yield(siteMap)
	m.del(k)
}
func (m *Map) del(k any) {
	if _, ok := m.m[k]; !ok {
		return
	}
	delete(m.m, k)
	for i, x := range m.keys {
		if x == k {
			m.keys = append(m.keys[:i:i], m.keys[i+1:]...)
			break
		}
	}
}
func (m *Map) Swap(k, v any) (any, bool) {
	verifsched.Yield(siteMap)
	old, ok := m.m[k]
	m.store(k, v)
	return old, ok
}
func (m *Map) CompareAndSwap(k, old, new any) bool {
	verifsched.Yield(siteMap)
	if cur, ok := m.m[k]; ok && cur == old {
		m.m[k] = new
		return true
	}
	return false
}
func (m *Map) CompareAndDelete(k, old any) bool {
	verifsched.Yield(siteMap)
	if cur, ok := m.m[k]; ok && cur == old {
		m.del(k)
		return true
	}
	return false
}
func (m *Map) Range(f func(k, v any) bool) {
	verifsched.Yield(siteMap)
	keys := append([]any{}, m.keys...)
	for _, k := range keys {
		v, ok := m.m[k]
		if !ok {
			continue
		}
		if !f(k, v) {
			return
		}
		verifsched.Yield(siteMap)
	}
}
func (m *Map) Clear() {
	verifsched.Yield(siteMap)
	m.m, m.keys = nil, nil
}

// Cond: Wait releases the lock and blocks until a later Signal/Broadcast.
type Cond struct {
	L       Locker
	gen     int
	waiters int
	tokens  int
}

func NewCond(l Locker) *Cond { return &Cond{L: l} }

func (c *Cond) Wait() {
	c.waiters++
	c.L.Unlock()
	verifsched.Block(siteCond, func() bool { return c.tokens > 0 })
	c.tokens--
	c.waiters--
	c.L.Lock()
}
func (c *Cond) Signal() {
	verifsched.Yield(siteCond)
	if c.waiters > c.tokens {
		c.tokens++
	}
}
func (c *Cond) Broadcast() {
	verifsched.Yield(siteCond)
	c.tokens = c.waiters
}
