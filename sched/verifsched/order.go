package verifsched

// Map iteration order as an explored environment answer (C15, "own every source of
// nondeterminism").  Go leaves the order of a range over a map unspecified; the instrumented
// build routes every such range through Sorted*Keys, which ends in orderKeys.  By default the
// order is the sorted one (what SCHED needs for replayable schedules).  The map-order explorer
// (mc/cmd/sched maporder) switches OrderOn and decides, per dynamic range event, which
// alternative order that event observes:
//
//	Target >= 0   only the Target-th range event (with >= 2 keys) deviates, by alternative Alt
//	Target == -2  every range event deviates, by alternative Alt modulo its number of alternatives
//	Target == -1  no deviation (events are still counted)
//
// Alternatives for n keys: n <= 4: all n!-1 other permutations; n > 4: each key moved to the
// front (n-1), the reversed order, and every rotation (n-1) — 2n-1 orders in which every key is
// visited first at least once.

var (
	OrderOn      bool
	OrderTarget  = -1
	OrderAlt     int
	OrderTarget2 = -1 // a second deviating event (bound 2), -1: none
	OrderAlt2    int
	OrderEvents  int   // range events with >= 2 keys since OrderReset
	OrderSizes   []int // their key counts
)

// OrderReset starts a new observation.
func OrderReset(target, alt int) {
	OrderOn, OrderTarget, OrderAlt, OrderEvents, OrderTarget2 = true, target, alt, 0, -1
	OrderSizes = OrderSizes[:0]
}

// OrderOff restores the default (sorted, uncounted) behaviour.
func OrderOff() { OrderOn = false }

// OrderAlts is the number of alternative orders explored for n keys.
func OrderAlts(n int) int {
	switch {
	case n < 2:
		return 0
	case n <= 4:
		f := 1
		for i := 2; i <= n; i++ {
			f *= i
		}
		return f - 1
	}
	return 2*n - 1
}

func orderKeys[K any](keys []K) []K {
	if !OrderOn || len(keys) < 2 {
		return keys
	}
	j := OrderEvents
	OrderEvents++
	OrderSizes = append(OrderSizes, len(keys))
	if OrderTarget == j || OrderTarget == -2 {
		applyAlt(keys, OrderAlt%OrderAlts(len(keys)))
	} else if OrderTarget2 == j {
		applyAlt(keys, OrderAlt2%OrderAlts(len(keys)))
	}
	return keys
}

// applyAlt permutes keys (sorted on entry) into the a-th alternative order.
func applyAlt[K any](keys []K, a int) {
	n := len(keys)
	src := make([]K, n)
	copy(src, keys)
	if n <= 4 {
		// the (a+1)-th permutation in lexicographic order (factorial number system)
		idx := a + 1
		avail := make([]int, n)
		for i := range avail {
			avail[i] = i
		}
		f := 1
		for i := 2; i < n; i++ {
			f *= i
		}
		for i := 0; i < n; i++ {
			q := idx / f
			idx %= f
			keys[i] = src[avail[q]]
			avail = append(avail[:q], avail[q+1:]...)
			if n-1-i > 0 {
				f /= (n - 1 - i)
			}
		}
		return
	}
	switch {
	case a < n-1: // key a+1 first, the rest in sorted order
		keys[0] = src[a+1]
		k := 1
		for i := 0; i < n; i++ {
			if i != a+1 {
				keys[k] = src[i]
				k++
			}
		}
	case a == n-1:
		for i := 0; i < n; i++ {
			keys[i] = src[n-1-i]
		}
	default:
		rot := a - (n - 1) // 1 .. n-1
		for i := 0; i < n; i++ {
			keys[i] = src[(i+rot)%n]
		}
	}
}
