// Package atomic is the scheduler-aware stand-in for sync/atomic: every operation is a
// scheduling point followed by the plain operation (sequentially consistent by construction,
// since only one controlled goroutine runs at a time).
package atomic

import (
	"unsafe"

	"github.com/goark/go-cvss/verifsched"
)

const site = -100

func y() { verifsched.Yield(site) }

type integer interface {
	~int32 | ~int64 | ~uint32 | ~uint64 | ~uintptr
}

func add[T integer](p *T, d T) T { y(); *p += d; return *p }
func load[T any](p *T) T         { y(); return *p }
func store[T any](p *T, v T)     { y(); *p = v }
func swap[T any](p *T, v T) T    { y(); o := *p; *p = v; return o }
func cas[T comparable](p *T, o, n T) bool {
	y()
	if *p == o {
		*p = n
		return true
	}
	return false
}

func AddInt32(p *int32, d int32) int32                                  { return add(p, d) }
func AddInt64(p *int64, d int64) int64                                  { return add(p, d) }
func AddUint32(p *uint32, d uint32) uint32                              { return add(p, d) }
func AddUint64(p *uint64, d uint64) uint64                              { return add(p, d) }
func AddUintptr(p *uintptr, d uintptr) uintptr                          { return add(p, d) }
func LoadInt32(p *int32) int32                                          { return load(p) }
func LoadInt64(p *int64) int64                                          { return load(p) }
func LoadUint32(p *uint32) uint32                                       { return load(p) }
func LoadUint64(p *uint64) uint64                                       { return load(p) }
func LoadUintptr(p *uintptr) uintptr                                    { return load(p) }
func LoadPointer(p *unsafe.Pointer) unsafe.Pointer                      { return load(p) }
func StoreInt32(p *int32, v int32)                                      { store(p, v) }
func StoreInt64(p *int64, v int64)                                      { store(p, v) }
func StoreUint32(p *uint32, v uint32)                                   { store(p, v) }
func StoreUint64(p *uint64, v uint64)                                   { store(p, v) }
func StoreUintptr(p *uintptr, v uintptr)                                { store(p, v) }
func StorePointer(p *unsafe.Pointer, v unsafe.Pointer)                  { store(p, v) }
func SwapInt32(p *int32, v int32) int32                                 { return swap(p, v) }
func SwapInt64(p *int64, v int64) int64                                 { return swap(p, v) }
func SwapUint32(p *uint32, v uint32) uint32                             { return swap(p, v) }
func SwapUint64(p *uint64, v uint64) uint64                             { return swap(p, v) }
func SwapPointer(p *unsafe.Pointer, v unsafe.Pointer) unsafe.Pointer    { return swap(p, v) }
func CompareAndSwapInt32(p *int32, o, n int32) bool                     { return cas(p, o, n) }
func CompareAndSwapInt64(p *int64, o, n int64) bool                     { return cas(p, o, n) }
func CompareAndSwapUint32(p *uint32, o, n uint32) bool                  { return cas(p, o, n) }
func CompareAndSwapUint64(p *uint64, o, n uint64) bool                  { return cas(p, o, n) }
func CompareAndSwapPointer(p *unsafe.Pointer, o, n unsafe.Pointer) bool { return cas(p, o, n) }

type Int32 struct{ v int32 }

func (x *Int32) Load() int32                    { return load(&x.v) }
func (x *Int32) Store(v int32)                  { store(&x.v, v) }
func (x *Int32) Swap(v int32) int32             { return swap(&x.v, v) }
func (x *Int32) Add(d int32) int32              { return add(&x.v, d) }
func (x *Int32) CompareAndSwap(o, n int32) bool { return cas(&x.v, o, n) }

type Int64 struct{ v int64 }

func (x *Int64) Load() int64                    { return load(&x.v) }
func (x *Int64) Store(v int64)                  { store(&x.v, v) }
func (x *Int64) Swap(v int64) int64             { return swap(&x.v, v) }
func (x *Int64) Add(d int64) int64              { return add(&x.v, d) }
func (x *Int64) CompareAndSwap(o, n int64) bool { return cas(&x.v, o, n) }

type Uint32 struct{ v uint32 }

func (x *Uint32) Load() uint32                    { return load(&x.v) }
func (x *Uint32) Store(v uint32)                  { store(&x.v, v) }
func (x *Uint32) Swap(v uint32) uint32            { return swap(&x.v, v) }
func (x *Uint32) Add(d uint32) uint32             { return add(&x.v, d) }
func (x *Uint32) CompareAndSwap(o, n uint32) bool { return cas(&x.v, o, n) }

type Uint64 struct{ v uint64 }

func (x *Uint64) Load() uint64                    { return load(&x.v) }
func (x *Uint64) Store(v uint64)                  { store(&x.v, v) }
func (x *Uint64) Swap(v uint64) uint64            { return swap(&x.v, v) }
func (x *Uint64) Add(d uint64) uint64             { return add(&x.v, d) }
func (x *Uint64) CompareAndSwap(o, n uint64) bool { return cas(&x.v, o, n) }

type Bool struct{ v bool }

func (x *Bool) Load() bool                    { return load(&x.v) }
func (x *Bool) Store(v bool)                  { store(&x.v, v) }
func (x *Bool) Swap(v bool) bool              { return swap(&x.v, v) }
func (x *Bool) CompareAndSwap(o, n bool) bool { return cas(&x.v, o, n) }

type Pointer[T any] struct{ p *T }

func (x *Pointer[T]) Load() *T                    { return load(&x.p) }
func (x *Pointer[T]) Store(v *T)                  { store(&x.p, v) }
func (x *Pointer[T]) Swap(v *T) *T                { return swap(&x.p, v) }
func (x *Pointer[T]) CompareAndSwap(o, n *T) bool { return cas(&x.p, o, n) }

type Value struct{ v any }

func (x *Value) Load() any { return load(&x.v) }
func (x *Value) Store(v any) {
	if v == nil {
		panic("sync/atomic: store of nil value into Value")
	}
	store(&x.v, v)
}
func (x *Value) Swap(v any) any { return swap(&x.v, v) }
func (x *Value) CompareAndSwap(o, n any) bool {
	y()
	if x.v == o {
		x.v = n
		return true
	}
	return false
}
