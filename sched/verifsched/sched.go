// Package verifsched is the controlled scheduler injected (with `go build -overlay`) into an
// instrumented build of go-cvss as the virtual package github.com/goark/go-cvss/verifsched.
//
// Exactly one controlled goroutine runs at any time.  Instrumented code calls Yield before every
// statement; at a Yield the running goroutine itself consults the schedule and either continues
// (no goroutine switch at all) or wakes the chosen thread and parks.  Outside Run, Yield is a
// no-op, so the same instrumented code also runs free (sequential reference runs, set-up code).
package verifsched

import (
	"fmt"
	"runtime"
	"sort"
)

// Point is one scheduling decision with at least two enabled threads.
type Point struct {
	Enabled        int8 // number of enabled threads (canonical order: running first, then ascending ids)
	RunningEnabled bool // the running thread could have continued
	Chosen         int8
	Thread         int8     // id of the thread that was chosen
	Steps          [4]int32 // yields executed by each thread when the decision was taken
}

// ChoiceList returns the choices of the first n points.
func (x *Exec) ChoiceList(n int) []int {
	c := make([]int, n)
	for i := 0; i < n; i++ {
		c[i] = int(x.Points[i].Chosen)
	}
	return c
}

// Exec is the record of one execution.
type Exec struct {
	Points   []Point
	Trace    uint64 // hash of the (thread, site) sequence
	Steps    int    // yields executed
	Switches int    // context switches away from an unfinished thread
	Deadlock bool
	Horizon  bool
	Diverged string   // non-empty: the prefix could not be replayed (infrastructure error)
	Panics   []string // per thread: recovered panic value ("" if none)
	StepsPer []int    // yields per thread
	// Snapshots of the shared state taken by the harness hook at context switches (optional),
	// and the index of the decision point at which each was taken.
	SwitchStates []uint64
	SwitchAt     []int
}

type thread struct {
	id      int
	wake    chan struct{}
	done    bool
	blocked func() bool // non-nil: thread is waiting until blocked() returns true
	steps   int
}

type state struct {
	prefix   []int
	threads  []*thread
	ex       *Exec
	finished chan struct{}
	horizon  int
	trace    uint64
	onSwitch func() uint64
	aborted  bool
}

var (
	cur *thread
	st  *state
)

// Active reports whether a controlled execution is in progress.
func Active() bool { return st != nil }

// Horizon is the maximal number of yields per execution.
var Horizon = 200000

// OnSwitch, if set before Run, is called at every context switch taken at a decision point with
// index >= OnSwitchFrom; its result is recorded.
var (
	OnSwitch     func() uint64
	OnSwitchFrom int
)

func (t *thread) isEnabled() bool {
	return !t.done && (t.blocked == nil || t.blocked())
}

// enabled fills buf with the enabled threads in canonical order: the running thread first if it
// is still enabled, then the others by ascending id.
func (s *state) enabled(running *thread, buf []*thread) []*thread {
	en := buf[:0]
	if running != nil && running.isEnabled() {
		en = append(en, running)
	}
	for _, t := range s.threads {
		if t != running && t.isEnabled() {
			en = append(en, t)
		}
	}
	return en
}

// decide picks the next thread to run; running may be nil (start), done or blocked.
func (s *state) decide(running *thread) *thread {
	var buf [8]*thread
	en := s.enabled(running, buf[:])
	if len(en) == 0 {
		return nil
	}
	if len(en) == 1 {
		return en[0]
	}
	i := len(s.ex.Points)
	choice := 0
	if i < len(s.prefix) {
		choice = s.prefix[i]
		if choice < 0 || choice >= len(en) {
			s.ex.Diverged = fmt.Sprintf("point %d: recorded choice %d but only %d threads are enabled", i, choice, len(en))
			choice = 0
		}
	}
	runEn := running != nil && en[0] == running
	p := Point{Enabled: int8(len(en)), RunningEnabled: runEn, Chosen: int8(choice), Thread: int8(en[choice].id)}
	for i, t := range s.threads {
		if i < len(p.Steps) {
			p.Steps[i] = int32(t.steps)
		}
	}
	s.ex.Points = append(s.ex.Points, p)
	return en[choice]
}

func (s *state) note(t *thread, site int) {
	// FNV-1a over (thread, site), inlined
	h := s.trace
	for _, b := range [5]byte{byte(t.id), byte(site), byte(site >> 8), byte(site >> 16), byte(site >> 24)} {
		h ^= uint64(b)
		h *= 1099511628211
	}
	s.trace = h
}

// abort ends the execution from inside a controlled goroutine: parked goroutines are left
// behind (they are few and the exploring process is short-lived).
func (s *state) abort() {
	s.aborted = true
	s.finished <- struct{}{}
	select {} // park forever
}

func transfer(from, to *thread) {
	s := st
	if from != nil && !from.done {
		s.ex.Switches++
	}
	if s.onSwitch != nil && len(s.ex.Points) > OnSwitchFrom {
		s.ex.SwitchStates = append(s.ex.SwitchStates, s.onSwitch())
		s.ex.SwitchAt = append(s.ex.SwitchAt, len(s.ex.Points)-1)
	}
	cur = to
	to.wake <- struct{}{}
}

// Yield is a scheduling point.  site identifies the statement (for trace comparison).
func Yield(site int) {
	s := st
	if s == nil {
		return
	}
	t := cur
	t.steps++
	s.ex.Steps++
	s.note(t, site)
	if s.ex.Steps > s.horizon {
		s.ex.Horizon = true
		s.abort()
	}
	next := s.decide(t)
	if next == t {
		return
	}
	// next cannot be nil: t itself is enabled
	transfer(t, next)
	<-t.wake
}

// Block parks the calling thread until cond() holds.  Every call is a scheduling point.
// Outside a controlled execution it panics if cond does not hold (a free-running single
// goroutine would deadlock).
func Block(site int, cond func() bool) {
	s := st
	if s == nil {
		if !cond() {
			panic("verifsched: blocking operation would deadlock in a free-running single goroutine")
		}
		return
	}
	Yield(site)
	t := cur
	for !cond() {
		t.blocked = cond
		next := s.decide(t)
		if next == nil {
			s.ex.Deadlock = true
			s.abort()
		}
		if next != t {
			transfer(t, next)
			<-t.wake
		}
		t.blocked = nil
	}
}

// Run executes the bodies as controlled threads under the given schedule prefix; decisions
// beyond the prefix take choice 0 (keep running; at a thread end the lowest enabled id).
func Run(prefix []int, bodies []func()) *Exec {
	if st != nil {
		panic("verifsched: nested Run")
	}
	s := &state{prefix: prefix, ex: &Exec{Panics: make([]string, len(bodies))}, finished: make(chan struct{}, 1), horizon: Horizon, trace: 14695981039346656037, onSwitch: OnSwitch}
	for i := range bodies {
		s.threads = append(s.threads, &thread{id: i, wake: make(chan struct{}, 1)})
	}
	st = s
	for i, body := range bodies {
		t, body := s.threads[i], body
		go func() {
			<-t.wake
			func() {
				defer func() {
					if x := recover(); x != nil {
						buf := make([]byte, 2048)
						n := runtime.Stack(buf, false)
						s.ex.Panics[t.id] = fmt.Sprintf("%v\n%s", x, buf[:n])
					}
				}()
				body()
			}()
			t.done = true
			next := s.decide(t)
			if next == nil {
				for _, o := range s.threads {
					if !o.done {
						s.ex.Deadlock = true // someone is blocked forever
					}
				}
				s.finished <- struct{}{}
				return
			}
			transfer(t, next)
		}()
	}
	first := s.decide(nil)
	if first == nil {
		st = nil
		return s.ex
	}
	cur = first
	first.wake <- struct{}{}
	<-s.finished
	st, cur = nil, nil
	s.ex.Trace = s.trace
	for _, t := range s.threads {
		s.ex.StepsPer = append(s.ex.StepsPer, t.steps)
	}
	return s.ex
}

// SortedKeys returns the keys of a map in a deterministic order (the instrumenter rewrites every
// range over a map into a range over SortedKeys, which removes the only source of
// nondeterminism that would make a schedule unreplayable).
func SortedKeys[M ~map[K]V, K comparable, V any](m M) []K {
	keys := make([]K, 0, len(m))
	for k := range m {
		keys = append(keys, k)
	}
	sort.Slice(keys, func(i, j int) bool { return fmt.Sprintf("%#v", keys[i]) < fmt.Sprintf("%#v", keys[j]) })
	return orderKeys(keys)
}

// SortedIntKeys is SortedKeys for maps keyed by an integer type (no formatting needed).
func SortedIntKeys[M ~map[K]V, K ~int | ~int8 | ~int16 | ~int32 | ~int64 | ~uint | ~uint8 | ~uint16 | ~uint32 | ~uint64, V any](m M) []K {
	keys := make([]K, 0, len(m))
	for k := range m {
		keys = append(keys, k)
	}
	sort.Slice(keys, func(i, j int) bool { return keys[i] < keys[j] })
	return orderKeys(keys)
}

// SortedStringKeys is SortedKeys for maps keyed by a string type.
func SortedStringKeys[M ~map[K]V, K ~string, V any](m M) []K {
	keys := make([]K, 0, len(m))
	for k := range m {
		keys = append(keys, k)
	}
	sort.Slice(keys, func(i, j int) bool { return keys[i] < keys[j] })
	return orderKeys(keys)
}
